#!/bin/sh
# rebaseline.sh [ids...] : regenerate baseline_obligations.json and evidence for the given
# properties (default: all) from /repo's working tree. Only run this on the unchanged
# (repaired) tree; refuses when /repo has uncommitted changes outside contracts_verif.go.
cd /verif || exit 2
export GOFLAGS=-mod=mod GOPROXY=off GOSUMDB=off GOTOOLCHAIN=local
dirty=$(git -C /repo status --short | grep -v contracts_verif.go)
[ -z "$dirty" ] || { echo "/repo has uncommitted code changes:"; echo "$dirty"; exit 2; }
./build.sh || exit 2
ids="$@"
[ -n "$ids" ] || ids=$(python3 -c "import json; print(' '.join(json.loads(l)['id'] for l in open('properties.jsonl')))")
for p in $ids; do
  ./bin/govc -prop $p -write-baseline -out evidence/$p.json 2>&1 | grep "functions=\|ENGINE\|UNDECIDED\|VIOLATION" | cut -c1-200
done
