#!/bin/sh
# try_benign.sh <patch> <props...> : apply a harmless edit to /repo, run the checks, undo it; prints false alarms
pf="$1"; shift
cd /repo || exit 2
git diff --quiet || { echo "/repo is not clean"; exit 2; }
git apply "$pf" || { echo "patch does not apply"; exit 2; }
for p in "$@"; do
  out=$(cd /verif && VERIF_EVIDENCE_DIR=/tmp/seed-evidence ./check $p 2>&1)
  if echo "$out" | grep -q "^VIOLATION\|^ENGINE"; then
    echo "--- $p: FALSE ALARM"; echo "$out" | grep "^VIOLATION\|^ENGINE\|^FAILED" | cut -c1-220 | head -8
  else
    echo "--- $p: quiet ($(echo "$out" | grep -o 'obligations=[0-9]*'))"
  fi
done
git -C /repo checkout -- .
