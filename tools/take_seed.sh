#!/bin/sh
# take_seed.sh <id> <suffix> : copy /tmp/seed2/<id>/seed_out to seeded/<id><suffix>, confirm, run the check
id="$1"; sfx="$2"
src=/tmp/seed2/$id/seed_out
dst=/verif/seeded/$id$sfx
mkdir -p "$dst"
cp "$src/patch.diff" "$dst/patch.diff"
cp "$src/demo_test.go.txt" "$dst/demo_test.go"
cp "$src/meta.json" "$dst/meta.json"
/verif/tools/verify_seed.sh "$dst" || exit 1
/verif/tools/run_seed.sh "$dst" "$id"
