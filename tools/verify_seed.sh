#!/bin/sh
# verify_seed.sh <dir containing patch.diff demo_test.go meta.json> : confirm a seeded change in a
# fresh scratch worktree of /repo: builds, suite passes, demo fails with it and passes without it.
set -u
src="$1"
export GOFLAGS=-mod=mod GOPROXY=off GOSUMDB=off GOTOOLCHAIN=local
pkgdir=$(python3 -c "import json,sys; print(json.load(open('$src/meta.json')).get('package_dir','.'))")
wt=$(mktemp -d /tmp/seedv.XXXXXX)
rmdir "$wt"
git -C /repo worktree add -q --detach "$wt" HEAD || exit 2
cleanup() { git -C /repo worktree remove --force "$wt" >/dev/null 2>&1; rm -rf "$wt"; }
trap cleanup EXIT
cd "$wt"
if ! git apply "$src/patch.diff"; then echo "SEED: patch does not apply"; exit 1; fi
if ! go build ./... ; then echo "SEED: does not build"; exit 1; fi
if ! go test -vet=off -count=1 ./... >/tmp/seedv.log 2>&1; then echo "SEED: existing suite fails with the change"; tail -5 /tmp/seedv.log; exit 1; fi
cp "$src/demo_test.go" "$pkgdir/zz_seed_demo_test.go"
if go test -vet=off -count=1 -timeout 120s -run '^TestSeedDemo$' "./$pkgdir" >/tmp/seedv.log 2>&1; then echo "SEED: demo passes WITH the change (should fail)"; exit 1; fi
grep -q "FAIL" /tmp/seedv.log || { echo "SEED: demo did not run"; tail -5 /tmp/seedv.log; exit 1; }
git checkout -q -- . 
if ! go test -vet=off -count=1 -timeout 120s -run '^TestSeedDemo$' "./$pkgdir" >/tmp/seedv.log 2>&1; then echo "SEED: demo fails WITHOUT the change (should pass)"; tail -8 /tmp/seedv.log; exit 1; fi
echo "SEED: confirmed (builds, suite passes, demo fails with the change and passes without)"
exit 0
