#!/usr/bin/env python3
"""Record every /repo commit whose subject starts with 'verif:' in MANIFEST.hooks.source_commits."""
import json, subprocess
m = json.load(open('/verif/MANIFEST.json'))
out = subprocess.run(['git', '-C', '/repo', 'log', '--reverse', '--format=%H %s'], capture_output=True, text=True).stdout
commits = [l.split()[0] for l in out.splitlines() if l.split(' ', 1)[1].startswith('verif:')]
m['hooks']['source_commits'] = commits
json.dump(m, open('/verif/MANIFEST.json', 'w'), indent=1)
print(len(commits), 'hook commits recorded')
