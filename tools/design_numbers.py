#!/usr/bin/env python3
"""Rewrite the functions / obligations / time cells of the table in DESIGN.md §4 from evidence/*.json."""
import json, re
src = open('/verif/DESIGN.md').read()
def repl(m):
    pid = m.group(1)
    e = json.load(open('/verif/evidence/%s.json' % pid))
    c = e['coverage']
    nf = len(c.get('functions_under_contract', [])) + int(c.get('functions_swept_without_contract', 0))
    if 'functions_processed' in c:
        nf = c['functions_processed']
    cell = ' %d / %d' % (nf, c['obligations'])
    if c.get('known_findings_hit'):
        cell += ', %d known finding' % c['known_findings_hit']
    return '| %s | %s | %s |%s| %d s |' % (pid, m.group(2), cell, m.group(4), round(e.get('wall_s', 0)))
out = re.sub(r'^\| (C\d\d) \| (\w+) \|([^|]*)\|(.*)\| *\d+ s \|$', lambda m: repl(m).replace('|  ', '| ', 0), src, flags=re.M)
open('/verif/DESIGN.md', 'w').write(out)
