#!/bin/sh
# run_seed.sh <seed-dir> [props...] : apply a seeded change to /repo, run the checks, undo it.
d="$1"; shift
props="$@"
[ -n "$props" ] || props=$(python3 -c "import json; m=json.load(open('$d/meta.json')); print(' '.join([m['property']]+m.get('also',[])))")
cd /repo || exit 2
git diff --quiet || { echo "/repo is not clean"; exit 2; }
git apply "$d/patch.diff" || { echo "patch does not apply"; exit 2; }
for p in $props; do
  echo "--- ./check $p with $(basename $d) applied"
  (cd /verif && VERIF_EVIDENCE_DIR=/tmp/seed-evidence ./check $p 2>&1 | grep "functions=\|VIOLATION\|FAILED-OBLIGATION\|UNDECIDED\|ENGINE" | cut -c1-230 | head -12; )
done
git -C /repo checkout -- .
git -C /repo status --short | head -3
