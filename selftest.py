#!/usr/bin/env python3
"""Must-fail / must-pass corpus for the govc checks.

  ./selftest.py [<property-id> | all] [--jobs N] [--only benign] [--match <regex on the entry path>]

mutants/<name>.patch : a change to /repo that compiles, passes the repository's
    tests and breaks a property. meta in mutants/<name>.json:
      {"properties": ["C13"], "expect": ["substring of an obligation name", ...]}
    Each is applied to a scratch copy of /repo's working tree (outside /repo and
    /verif, removed afterwards); the check of every listed property must report a
    VIOLATION, and a failed obligation whose name contains one of `expect`.
benign/<name>.patch  : harmless edits (renames, reordering, logging); every check
    listed in benign/<name>.json must stay free of VIOLATION lines. An entry whose meta
    carries "known_false_alarm" documents a limit of the engine: it is run and shown,
    and does not count as a problem while it alarms.

Exit 0 when every mutant is killed and no benign edit raises an alarm, 1 otherwise.
"""
import json, os, shutil, subprocess, sys, tempfile, glob, concurrent.futures

VERIF = "/verif"
REPO = "/repo"
ENV = dict(os.environ, GOFLAGS="-mod=mod", GOPROXY="off", GOSUMDB="off", GOTOOLCHAIN="local")


def scratch_copy():
    d = tempfile.mkdtemp(prefix="govc-selftest-")
    dst = os.path.join(d, "repo")
    shutil.copytree(REPO, dst, ignore=shutil.ignore_patterns(".git"))
    return d, dst


def run_check(repo, prop, noreplay=True):
    cmd = [os.path.join(VERIF, "bin/govc"), "-repo", repo, "-spec", os.path.join(VERIF, "spec"), "-prop", prop,
           "-timeout", "10", "-replaydir", os.path.join(os.path.dirname(repo), "replays")]
    if noreplay:
        cmd.append("-noreplay")
    p = subprocess.run(cmd, capture_output=True, text=True, env=ENV, cwd=VERIF)
    return p.returncode, p.stdout + p.stderr


def one(kind, patch, prop_filter):
    meta_path = patch[:-6] + ".json"
    if os.path.basename(patch) == "patch.diff":
        meta_path = os.path.join(os.path.dirname(patch), "meta.json")
    meta = json.load(open(meta_path)) if os.path.exists(meta_path) else {}
    props = meta.get("properties", [])
    if not props and "property" in meta:
        props = [meta["property"]] + meta.get("also", [])
    if prop_filter != "all":
        props = [p for p in props if p == prop_filter]
    if not props:
        return None
    d, repo = scratch_copy()
    try:
        ap = subprocess.run(["patch", "-p1", "-s", "-i", patch], cwd=repo, capture_output=True, text=True)
        if ap.returncode != 0:
            return (kind, patch, False, "patch does not apply: " + ap.stdout + ap.stderr)
        if meta.get("build", True):
            b = subprocess.run(["go", "build", "./..."], cwd=repo, capture_output=True, text=True, env=ENV)
            if b.returncode != 0:
                return (kind, patch, False, "does not compile: " + b.stderr[:400])
        msgs = []
        ok = True
        for prop in props:
            rc, out = run_check(repo, prop)
            viol = [l for l in out.splitlines() if l.startswith("VIOLATION")]
            failed = [l for l in out.splitlines() if l.startswith("FAILED-OBLIGATION")]
            if kind == "mutant":
                exp = meta.get("expect", [])
                named = (not exp) or any(any(e in l for e in exp) for l in failed)
                if rc != 1 or not viol or not named:
                    ok = False
                    msgs.append("%s: NOT KILLED (rc=%d, %d violations, expected obligation %s %s)" % (prop, rc, len(viol), exp, "seen" if named else "not seen"))
                else:
                    msgs.append("%s: killed by %s" % (prop, "; ".join(sorted(set(l.split()[2] for l in failed))[:4])))
            else:
                if (rc != 0 or viol) and meta.get("known_false_alarm"):
                    # recorded limit of the engine (DESIGN.md section 9): kept in the corpus, shown, not counted
                    msgs.append("%s: alarm, a recorded limit (%s)" % (prop, meta["known_false_alarm"][:80]))
                elif rc != 0 or viol:
                    ok = False
                    msgs.append("%s: FALSE ALARM (rc=%d): %s" % (prop, rc, "; ".join(l.split()[2] for l in failed[:5]) or out[-300:]))
                else:
                    msgs.append("%s: quiet" % prop)
        return (kind, patch, ok, " | ".join(msgs))
    finally:
        shutil.rmtree(d, ignore_errors=True)


def main():
    prop = sys.argv[1] if len(sys.argv) > 1 and not sys.argv[1].startswith("--") else "all"
    jobs = 4
    if "--jobs" in sys.argv:
        jobs = int(sys.argv[sys.argv.index("--jobs") + 1])
    tasks = [("mutant", p) for p in sorted(glob.glob(os.path.join(VERIF, "mutants", "*.patch")))] + \
            [("benign", p) for p in sorted(glob.glob(os.path.join(VERIF, "benign", "*.patch")))] + \
            [("mutant", os.path.join(d, "patch.diff")) for d in sorted(glob.glob(os.path.join(VERIF, "seeded", "*"))) if os.path.exists(os.path.join(d, "patch.diff"))]
    if "--only" in sys.argv:
        kind_only = sys.argv[sys.argv.index("--only") + 1]
        tasks = [t for t in tasks if (kind_only == "benign") == (t[0] == "benign")]
    if "--match" in sys.argv:
        import re
        rx = re.compile(sys.argv[sys.argv.index("--match") + 1])
        tasks = [t for t in tasks if rx.search(t[1])]
    bad = 0
    n = 0
    with concurrent.futures.ThreadPoolExecutor(max_workers=jobs) as ex:
        for res in ex.map(lambda t: one(t[0], t[1], prop), tasks):
            if res is None:
                continue
            n += 1
            kind, patch, ok, msg = res
            print("SELFTEST %-6s %-4s %s: %s" % (kind, "ok" if ok else "FAIL", os.path.relpath(patch, VERIF), msg))
            if not ok:
                bad += 1
    print("SELFTEST summary: %d corpus entries, %d problems" % (n, bad))
    return 1 if bad else 0


if __name__ == "__main__":
    sys.exit(main())
