package main

// Contract files: blocks of `//@` lines (in /repo, behind the verif build tag)
// or plain lines (in /verif/spec/*.spec). See DESIGN.md §3.3.

import (
	"crypto/sha1"
	"crypto/sha256"
	"fmt"
	"os"
	"strconv"
	"strings"
	"unicode"
)

type SExpr struct {
	Kind string // num str ident ghost field gfield index call unop binop forall cond
	Name string // ident / field / ghost name / operator / callee
	Num  int64
	Str  string
	Args []*SExpr
	Vars []string // forall bound variables
	Pos  string
}

func (e *SExpr) String() string {
	switch e.Kind {
	case "num":
		return strconv.FormatInt(e.Num, 10)
	case "str":
		return strconv.Quote(e.Str)
	case "ident":
		return e.Name
	case "ghost":
		return "#" + e.Name
	case "field":
		return e.Args[0].String() + "." + e.Name
	case "gfield":
		return e.Args[0].String() + ".#" + e.Name
	case "index":
		return e.Args[0].String() + "[" + e.Args[1].String() + "]"
	case "call":
		var as []string
		for _, a := range e.Args {
			as = append(as, a.String())
		}
		return e.Name + "(" + strings.Join(as, ", ") + ")"
	case "unop":
		return e.Name + e.Args[0].String()
	case "binop":
		return "(" + e.Args[0].String() + " " + e.Name + " " + e.Args[1].String() + ")"
	case "forall":
		return "(forall " + strings.Join(e.Vars, ", ") + " :: " + e.Args[0].String() + ")"
	case "cond":
		return "(" + e.Args[0].String() + " ? " + e.Args[1].String() + " : " + e.Args[2].String() + ")"
	}
	return "?"
}

type Clause struct {
	Label string
	Props []string
	Expr  *SExpr
	Src   string
}

type LoopSpec struct {
	Invariants []*Clause
	Decreases  *SExpr
	Steps      []*Clause
}

type GhostAssign struct {
	LHS  *SExpr
	RHS  *SExpr
	Cond *SExpr // optional guard
}

type Contract struct {
	Key       string // e.g. "buffer.(*Reader).Slurp", "callback wire.ParseFn", "iface wire.StatementCache.Get"
	Kind      string // func | callback | iface | extern
	Params    []string // explicit parameter names (callback / iface / extern)
	Results   []string
	Props     []string
	GhostPars []string
	Binds     map[string]string // spec name -> callee key: the result of the (first dominating) call of that callee
	Requires  []*Clause
	Ensures   []*Clause
	Modifies  []*SExpr
	HasMod    bool
	Loops     map[int]*LoopSpec
	Ghosts    []*GhostAssign // ghost updates executed at every return
	Callsites map[string][]*Clause // callee key -> assertions checked at each call to it
	AtReturn  []*Clause            // assertions over locals checked at every return
	Refines   string               // key of the interface-level contract this method must satisfy
	Skip      string               // not verified, with the reason (listed in the evidence)
	Trusted   bool
	Inline    bool // force inlining at call sites (no modular use)
	Rely      []*Clause // interference block: what steps of other goroutines may do to the shared state
	Guarantee []*Clause // interference block: what every step of this goroutine must respect
	SpawnSets []*GhostAssign // ghost updates applied to the spawner when the function is started with `go`
	Concurrent *SExpr   // func contract: `concurrent Name(args)` - run under the named interference
	NoPanic   bool
	File      string
	Line      int
	Used      bool
}

type SpecFunc struct {
	Name   string
	Params []string
	Body   *SExpr
	Rec    bool
	Sort   string // result sort for recursive functions (Int/Bool)
}

type TypeInv struct {
	Var  string
	Expr *SExpr
}

type ModGroup struct {
	Params  []string
	Targets []*SExpr
}

type SpecDB struct {
	Unframed  map[string]bool
	Contracts map[string]*Contract
	Funcs     map[string]*SpecFunc
	Axioms    []*Clause
	GhostSort map[string]string // ghost (global or field) name -> sort
	ModGroups map[string]*ModGroup
	TypeInvs  map[string]*TypeInv
	MapInvs   map[string]*TypeInv // map type key -> invariant of every stored value
	Files     map[string]string // path -> sha256
	PropFuncs map[string][]string
}

func newSpecDB() *SpecDB {
	return &SpecDB{Contracts: map[string]*Contract{}, Funcs: map[string]*SpecFunc{}, GhostSort: map[string]string{}, ModGroups: map[string]*ModGroup{}, TypeInvs: map[string]*TypeInv{}, MapInvs: map[string]*TypeInv{}, Files: map[string]string{}, PropFuncs: map[string][]string{}}
}

// ---- lexer ----

type tok struct {
	k string // num ident str op eof
	s string
	n int64
}

func lex(src string) ([]tok, error) {
	var out []tok
	i := 0
	for i < len(src) {
		c := src[i]
		switch {
		case c == ' ' || c == '\t':
			i++
		case unicode.IsDigit(rune(c)):
			j := i
			for j < len(src) && (unicode.IsDigit(rune(src[j])) || src[j] == 'x' || src[j] >= 'a' && src[j] <= 'f' || src[j] >= 'A' && src[j] <= 'F' || src[j] == '_') {
				j++
			}
			n, err := strconv.ParseInt(strings.ReplaceAll(src[i:j], "_", ""), 0, 64)
			if err != nil {
				return nil, fmt.Errorf("bad number %q", src[i:j])
			}
			out = append(out, tok{k: "num", n: n})
			i = j
		case unicode.IsLetter(rune(c)) || c == '_' || c == '$':
			j := i
			for j < len(src) && (unicode.IsLetter(rune(src[j])) || unicode.IsDigit(rune(src[j])) || src[j] == '_' || src[j] == '$') {
				j++
			}
			out = append(out, tok{k: "ident", s: src[i:j]})
			i = j
		case c == '"':
			j := i + 1
			for j < len(src) && src[j] != '"' {
				if src[j] == '\\' {
					j++
				}
				j++
			}
			s, err := strconv.Unquote(src[i : j+1])
			if err != nil {
				return nil, fmt.Errorf("bad string %q", src[i:j+1])
			}
			out = append(out, tok{k: "str", s: s})
			i = j + 1
		case c == '\'':
			j := i + 1
			for j < len(src) && src[j] != '\'' {
				if src[j] == '\\' {
					j++
				}
				j++
			}
			r, _, _, err := strconv.UnquoteChar(src[i+1:j], '\'')
			if err != nil {
				return nil, fmt.Errorf("bad char %q", src[i:j+1])
			}
			out = append(out, tok{k: "num", n: int64(r)})
			i = j + 1
		default:
			ops := []string{"<==>", "==>", "::", "==", "!=", "<=", ">=", "&&", "||", ".#"}
			matched := false
			for _, op := range ops {
				if strings.HasPrefix(src[i:], op) {
					out = append(out, tok{k: "op", s: op})
					i += len(op)
					matched = true
					break
				}
			}
			if !matched {
				out = append(out, tok{k: "op", s: string(c)})
				i++
			}
		}
	}
	out = append(out, tok{k: "eof"})
	return out, nil
}

type parser struct {
	toks []tok
	p    int
	pos  string
}

func (p *parser) peek() tok { return p.toks[p.p] }
func (p *parser) next() tok { t := p.toks[p.p]; p.p++; return t }
func (p *parser) isOp(s string) bool {
	t := p.peek()
	return t.k == "op" && t.s == s
}
func (p *parser) expectOp(s string) {
	if !p.isOp(s) {
		panic(fmt.Sprintf("%s: expected %q, got %q", p.pos, s, p.peek().s))
	}
	p.p++
}

func parseExpr(src, pos string) (e *SExpr, err error) {
	toks, err := lex(src)
	if err != nil {
		return nil, fmt.Errorf("%s: %v", pos, err)
	}
	p := &parser{toks: toks, pos: pos}
	defer func() {
		if r := recover(); r != nil {
			err = fmt.Errorf("%v (in %q)", r, src)
		}
	}()
	e = p.parseIff()
	if p.peek().k != "eof" {
		panic(fmt.Sprintf("%s: trailing tokens at %q", pos, p.peek().s))
	}
	return e, nil
}

func bin(op string, a, b *SExpr) *SExpr { return &SExpr{Kind: "binop", Name: op, Args: []*SExpr{a, b}} }

func (p *parser) parseIff() *SExpr {
	l := p.parseImp()
	for p.isOp("<==>") {
		p.next()
		r := p.parseImp()
		l = bin("<==>", l, r)
	}
	return l
}
func (p *parser) parseImp() *SExpr {
	l := p.parseCond()
	if p.isOp("==>") {
		p.next()
		r := p.parseImp()
		return bin("==>", l, r)
	}
	return l
}
func (p *parser) parseCond() *SExpr {
	c := p.parseOr()
	if p.isOp("?") {
		p.next()
		a := p.parseCond()
		p.expectOp(":")
		b := p.parseCond()
		return &SExpr{Kind: "cond", Args: []*SExpr{c, a, b}}
	}
	return c
}
func (p *parser) parseOr() *SExpr {
	l := p.parseAnd()
	for p.isOp("||") {
		p.next()
		l = bin("||", l, p.parseAnd())
	}
	return l
}
func (p *parser) parseAnd() *SExpr {
	l := p.parseCmp()
	for p.isOp("&&") {
		p.next()
		l = bin("&&", l, p.parseCmp())
	}
	return l
}
func (p *parser) parseCmp() *SExpr {
	l := p.parseAdd()
	for {
		t := p.peek()
		if t.k == "op" && (t.s == "==" || t.s == "!=" || t.s == "<" || t.s == "<=" || t.s == ">" || t.s == ">=") {
			p.next()
			r := p.parseAdd()
			// chained comparison a <= b < c
			n := bin(t.s, l, r)
			t2 := p.peek()
			if t2.k == "op" && (t2.s == "<" || t2.s == "<=") && (t.s == "<" || t.s == "<=") {
				p.next()
				r2 := p.parseAdd()
				return bin("&&", n, bin(t2.s, r, r2))
			}
			return n
		}
		return l
	}
}
func (p *parser) parseAdd() *SExpr {
	l := p.parseMul()
	for p.isOp("+") || p.isOp("-") {
		op := p.next().s
		l = bin(op, l, p.parseMul())
	}
	return l
}
func (p *parser) parseMul() *SExpr {
	l := p.parseUnary()
	for p.isOp("*") || p.isOp("/") || p.isOp("%") {
		op := p.next().s
		l = bin(op, l, p.parseUnary())
	}
	return l
}
func (p *parser) parseUnary() *SExpr {
	if p.isOp("!") || p.isOp("-") {
		op := p.next().s
		return &SExpr{Kind: "unop", Name: op, Args: []*SExpr{p.parseUnary()}}
	}
	return p.parsePostfix()
}
func (p *parser) parsePostfix() *SExpr {
	e := p.parsePrimary()
	for {
		switch {
		case p.isOp("."):
			p.next()
			t := p.next()
			if t.k == "num" {
				e = &SExpr{Kind: "field", Name: strconv.FormatInt(t.n, 10), Args: []*SExpr{e}}
			} else if t.k == "ident" {
				e = &SExpr{Kind: "field", Name: t.s, Args: []*SExpr{e}}
			} else if t.k == "op" && t.s == "*" {
				e = &SExpr{Kind: "field", Name: "*", Args: []*SExpr{e}}
			} else {
				panic(fmt.Sprintf("%s: bad field selector %q", p.pos, t.s))
			}
		case p.isOp(".#"):
			p.next()
			t := p.next()
			e = &SExpr{Kind: "gfield", Name: t.s, Args: []*SExpr{e}}
		case p.isOp("["):
			p.next()
			i := p.parseIff()
			p.expectOp("]")
			e = &SExpr{Kind: "index", Args: []*SExpr{e, i}}
		default:
			return e
		}
	}
}
func (p *parser) parsePrimary() *SExpr {
	t := p.next()
	switch t.k {
	case "num":
		return &SExpr{Kind: "num", Num: t.n}
	case "str":
		return &SExpr{Kind: "str", Str: t.s}
	case "ident":
		if t.s == "forall" {
			var vars []string
			for {
				v := p.next()
				vars = append(vars, v.s)
				if p.isOp(",") {
					p.next()
					continue
				}
				break
			}
			p.expectOp("::")
			body := p.parseIff()
			return &SExpr{Kind: "forall", Vars: vars, Args: []*SExpr{body}}
		}
		if p.isOp("(") {
			p.next()
			var args []*SExpr
			for !p.isOp(")") {
				args = append(args, p.parseIff())
				if p.isOp(",") {
					p.next()
				}
			}
			p.expectOp(")")
			return &SExpr{Kind: "call", Name: t.s, Args: args}
		}
		return &SExpr{Kind: "ident", Name: t.s}
	case "op":
		if t.s == "(" {
			e := p.parseIff()
			p.expectOp(")")
			return e
		}
		if t.s == "#" {
			n := p.next()
			return &SExpr{Kind: "ghost", Name: n.s}
		}
	}
	panic(fmt.Sprintf("%s: unexpected token %q", p.pos, t.s))
}

// ---- file parser ----

func (db *SpecDB) loadFile(path, pkgShort string, slashAt bool) error {
	data, err := os.ReadFile(path)
	if err != nil {
		return err
	}
	db.Files[path] = fmt.Sprintf("%x", sha256.Sum256(data))
	var lines []string
	var nums []int
	for i, ln := range strings.Split(string(data), "\n") {
		t := strings.TrimSpace(ln)
		if slashAt {
			if !strings.HasPrefix(t, "//@") {
				continue
			}
			t = strings.TrimSpace(strings.TrimPrefix(t, "//@"))
		} else {
			if strings.HasPrefix(t, "//@") {
				t = strings.TrimSpace(strings.TrimPrefix(t, "//@"))
			}
		}
		if t == "" || strings.HasPrefix(t, "--") || strings.HasPrefix(t, "//") {
			continue
		}
		// continuation
		if strings.HasPrefix(t, "|") && len(lines) > 0 {
			lines[len(lines)-1] += " " + strings.TrimSpace(t[1:])
			continue
		}
		lines = append(lines, t)
		nums = append(nums, i+1)
	}
	var cur *Contract
	var curLoop *LoopSpec
	for i, ln := range lines {
		pos := fmt.Sprintf("%s:%d", path, nums[i])
		word, rest := splitWord(ln)
		switch word {
		case "func", "callback", "iface", "extern", "interference":
			key, params, results := parseHeader(rest)
			if word == "func" && pkgShort != "" {
				switch {
				case strings.HasPrefix(key, "(*") && !strings.Contains(key[:strings.Index(key, ")")], "."):
					key = "(*" + pkgShort + "." + key[2:]
				case strings.HasPrefix(key, "(") && !strings.Contains(key[:strings.Index(key, ")")], "."):
					key = "(" + pkgShort + "." + key[1:]
				case !strings.HasPrefix(key, "(") && !strings.Contains(key, "."):
					key = pkgShort + "." + key
				}
			}
			if word != "func" {
				key = word + " " + key
			}
			if _, dup := db.Contracts[key]; dup {
				return fmt.Errorf("%s: duplicate contract for %s", pos, key)
			}
			cur = &Contract{Key: key, Kind: word, Params: params, Results: results, Loops: map[int]*LoopSpec{}, File: path, Line: nums[i]}
			db.Contracts[key] = cur
			curLoop = nil
		case "props":
			if cur == nil {
				return fmt.Errorf("%s: props outside block", pos)
			}
			cur.Props = strings.Fields(strings.ReplaceAll(rest, ",", " "))
		case "ghostparam":
			cur.GhostPars = append(cur.GhostPars, strings.Fields(strings.ReplaceAll(rest, ",", " "))...)
		case "bind":
			// bind NAME = CALLEE : NAME denotes the result of the call of CALLEE in this function,
			// whatever local (if any) the code keeps it in
			if cur == nil {
				return fmt.Errorf("%s: bind outside block", pos)
			}
			parts := strings.SplitN(rest, "=", 2)
			if len(parts) != 2 {
				return fmt.Errorf("%s: bind NAME = CALLEE", pos)
			}
			if cur.Binds == nil {
				cur.Binds = map[string]string{}
			}
			cur.Binds[strings.TrimSpace(parts[0])] = strings.TrimSpace(parts[1])
		case "trusted":
			cur.Trusted = true
		case "inline":
			cur.Inline = true
		case "step":
			// step [label] {props} expr : holds at the end of every iteration of the current loop;
			// locals of the body are in scope and old(e) is the value of e at the start of the iteration
			if cur == nil || curLoop == nil {
				return fmt.Errorf("%s: step outside loop", pos)
			}
			cl, err := parseClause(rest, pos)
			if err != nil {
				return err
			}
			if len(cl.Props) == 0 {
				cl.Props = cur.Props
			}
			curLoop.Steps = append(curLoop.Steps, cl)
		case "requires", "ensures", "invariant":
			if cur == nil {
				return fmt.Errorf("%s: clause outside block", pos)
			}
			cl, err := parseClause(rest, pos)
			if err != nil {
				return err
			}
			if len(cl.Props) == 0 {
				cl.Props = cur.Props
			}
			switch word {
			case "requires":
				cur.Requires = append(cur.Requires, cl)
			case "ensures":
				cur.Ensures = append(cur.Ensures, cl)
			case "invariant":
				if curLoop == nil {
					return fmt.Errorf("%s: invariant outside loop", pos)
				}
				curLoop.Invariants = append(curLoop.Invariants, cl)
			}
		case "rely", "guarantee":
			if cur == nil || cur.Kind != "interference" {
				return fmt.Errorf("%s: %s outside an interference block", pos, word)
			}
			cl, err := parseClause(rest, pos)
			if err != nil {
				return err
			}
			if word == "rely" {
				cur.Rely = append(cur.Rely, cl)
			} else {
				cur.Guarantee = append(cur.Guarantee, cl)
			}
		case "concurrent":
			e, err := parseExpr(rest, pos)
			if err != nil {
				return err
			}
			if e.Kind != "call" {
				return fmt.Errorf("%s: concurrent expects Name(args)", pos)
			}
			cur.Concurrent = e
		case "skip":
			cur.Skip = strings.TrimSpace(rest)
		case "refines":
			cur.Refines = strings.TrimSpace(rest)
		case "atreturn":
			cl, err := parseClause(rest, pos)
			if err != nil {
				return err
			}
			if len(cl.Props) == 0 {
				cl.Props = cur.Props
			}
			cur.AtReturn = append(cur.AtReturn, cl)
		case "callsite":
			// callsite <calleeKey> [label] {props} expr
			ck, r2 := splitWord(rest)
			ck = strings.Replace(ck, "callback:", "callback ", 1)
			ck = strings.Replace(ck, "iface:", "iface ", 1)
			cl, err := parseClause(r2, pos)
			if err != nil {
				return err
			}
			if len(cl.Props) == 0 {
				cl.Props = cur.Props
			}
			if cur.Callsites == nil {
				cur.Callsites = map[string][]*Clause{}
			}
			cur.Callsites[ck] = append(cur.Callsites[ck], cl)
		case "decreases":
			e, err := parseExpr(rest, pos)
			if err != nil {
				return err
			}
			if curLoop == nil {
				return fmt.Errorf("%s: decreases outside loop", pos)
			}
			curLoop.Decreases = e
		case "modifies":
			cur.HasMod = true
			if strings.TrimSpace(rest) == "nothing" {
				break
			}
			for _, part := range splitTop(rest) {
				e, err := parseExpr(part, pos)
				if err != nil {
					return err
				}
				cur.Modifies = append(cur.Modifies, e)
			}
		case "loop":
			n, err := strconv.Atoi(strings.TrimSpace(rest))
			if err != nil {
				return fmt.Errorf("%s: bad loop ordinal", pos)
			}
			curLoop = &LoopSpec{}
			cur.Loops[n] = curLoop
		case "ghostset", "spawnset":
			// ghostset LHS = RHS [if COND]
			parts := strings.SplitN(rest, " = ", 2)
			if len(parts) != 2 {
				return fmt.Errorf("%s: bad ghostset", pos)
			}
			var cond *SExpr
			rhs := parts[1]
			if k := strings.Index(rhs, " if "); k >= 0 {
				c, err := parseExpr(rhs[k+4:], pos)
				if err != nil {
					return err
				}
				cond = c
				rhs = rhs[:k]
			}
			l, err := parseExpr(parts[0], pos)
			if err != nil {
				return err
			}
			r, err := parseExpr(rhs, pos)
			if err != nil {
				return err
			}
			if word == "spawnset" {
				// effect on the SPAWNER's per-goroutine ghosts when this function is started with `go`
				cur.SpawnSets = append(cur.SpawnSets, &GhostAssign{LHS: l, RHS: r, Cond: cond})
			} else {
				cur.Ghosts = append(cur.Ghosts, &GhostAssign{LHS: l, RHS: r, Cond: cond})
			}
		case "spec":
			// spec func name(a,b) = expr | spec rec name(a) sort = expr
			w2, r2 := splitWord(rest)
			eq := strings.Index(r2, " = ")
			if eq < 0 {
				return fmt.Errorf("%s: bad spec func", pos)
			}
			hdr := strings.TrimSpace(r2[:eq])
			body, err := parseExpr(r2[eq+3:], pos)
			if err != nil {
				return err
			}
			lp := strings.Index(hdr, "(")
			rp := strings.LastIndex(hdr, ")")
			sf := &SpecFunc{Name: strings.TrimSpace(hdr[:lp]), Body: body, Rec: w2 == "rec", Sort: SInt}
			for _, a := range strings.Split(hdr[lp+1:rp], ",") {
				if a = strings.TrimSpace(a); a != "" {
					sf.Params = append(sf.Params, a)
				}
			}
			if tail := strings.TrimSpace(hdr[rp+1:]); tail == "bool" {
				sf.Sort = SBool
			}
			db.Funcs[sf.Name] = sf
			cur = nil
		case "mapinv":
			// mapinv <mapTypeKey> <var> : expr   (every value stored in a map of this type satisfies expr)
			tk, r2 := splitWord(rest)
			vn, r3 := splitWord(r2)
			r3 = strings.TrimSpace(strings.TrimPrefix(strings.TrimSpace(r3), ":"))
			e, err := parseExpr(r3, pos)
			if err != nil {
				return err
			}
			db.MapInvs[tk] = &TypeInv{Var: strings.TrimSuffix(vn, ":"), Expr: e}
			cur = nil
		case "typeinv":
			// typeinv <typeKey> <var> : expr
			tk, r2 := splitWord(rest)
			vn, r3 := splitWord(r2)
			r3 = strings.TrimSpace(strings.TrimPrefix(strings.TrimSpace(r3), ":"))
			e, err := parseExpr(r3, pos)
			if err != nil {
				return err
			}
			db.TypeInvs[tk] = &TypeInv{Var: strings.TrimSuffix(vn, ":"), Expr: e}
			cur = nil
		case "modgroup":
			// modgroup Name(p1, p2) = target, target, ...
			eq := strings.Index(rest, " = ")
			if eq < 0 {
				return fmt.Errorf("%s: bad modgroup", pos)
			}
			hdr := strings.TrimSpace(rest[:eq])
			lp := strings.Index(hdr, "(")
			rp := strings.LastIndex(hdr, ")")
			mg := &ModGroup{}
			for _, a := range strings.Split(hdr[lp+1:rp], ",") {
				if a = strings.TrimSpace(a); a != "" {
					mg.Params = append(mg.Params, a)
				}
			}
			for _, part := range splitTop(rest[eq+3:]) {
				e, err := parseExpr(part, pos)
				if err != nil {
					return err
				}
				mg.Targets = append(mg.Targets, e)
			}
			db.ModGroups[strings.TrimSpace(hdr[:lp])] = mg
			cur = nil
		case "axiom":
			cl, err := parseClause(rest, pos)
			if err != nil {
				return err
			}
			db.Axioms = append(db.Axioms, cl)
			cur = nil
		case "ghost", "ghostfield":
			f := strings.Fields(rest)
			s := SInt
			if len(f) > 1 && f[1] == "bool" {
				s = SBool
			}
			db.GhostSort[f[0]] = s
			if len(f) > 2 && f[2] == "unframed" {
				// a monitor counter that any function may advance without naming it in `modifies`
				if db.Unframed == nil {
					db.Unframed = map[string]bool{}
				}
				db.Unframed[f[0]] = true
			}
			cur = nil
		default:
			return fmt.Errorf("%s: unknown directive %q", pos, word)
		}
	}
	return nil
}

func splitWord(s string) (string, string) {
	s = strings.TrimSpace(s)
	i := strings.IndexAny(s, " \t")
	if i < 0 {
		return s, ""
	}
	return s[:i], strings.TrimSpace(s[i+1:])
}

// parseHeader parses `key(params) (results)` or just `key`.
func parseHeader(rest string) (key string, params, results []string) {
	rest = strings.TrimSpace(rest)
	// method keys start with "(" e.g. (*Reader).Slurp — find params list as the LAST "(...)" groups after the name
	// Format: KEY [ "(" params ")" [ "(" results ")" ] ] where KEY has no spaces.
	sp := strings.IndexAny(rest, " \t")
	if sp < 0 {
		return rest, nil, nil
	}
	key = rest[:sp]
	tail := strings.TrimSpace(rest[sp:])
	groups := []string{}
	for strings.HasPrefix(tail, "(") {
		j := strings.Index(tail, ")")
		groups = append(groups, tail[1:j])
		tail = strings.TrimSpace(tail[j+1:])
	}
	split := func(s string) []string {
		var out []string
		for _, a := range strings.Split(s, ",") {
			if a = strings.TrimSpace(a); a != "" {
				out = append(out, a)
			}
		}
		return out
	}
	if len(groups) > 0 {
		params = split(groups[0])
	}
	if len(groups) > 1 {
		results = split(groups[1])
	}
	return
}

func parseClause(rest, pos string) (*Clause, error) {
	cl := &Clause{Src: rest}
	rest = strings.TrimSpace(rest)
	if strings.HasPrefix(rest, "[") {
		j := strings.Index(rest, "]")
		cl.Label = rest[1:j]
		rest = strings.TrimSpace(rest[j+1:])
	}
	if strings.HasPrefix(rest, "{") {
		j := strings.Index(rest, "}")
		cl.Props = append([]string{"!explicit"}, strings.Fields(strings.ReplaceAll(rest[1:j], ",", " "))...)
		rest = strings.TrimSpace(rest[j+1:])
	}
	e, err := parseExpr(rest, pos)
	if err != nil {
		return nil, err
	}
	cl.Expr = e
	if cl.Label == "" {
		// stable default label: a short digest of the clause text, so that adding or
		// removing lines elsewhere in a contract file does not rename obligations
		sum := sha1.Sum([]byte(strings.Join(strings.Fields(rest), "")))
		cl.Label = fmt.Sprintf("u%x", sum[:3])
	}
	return cl, nil
}

// splitTop splits on commas not nested in parentheses/brackets.
func splitTop(s string) []string {
	var out []string
	depth := 0
	last := 0
	for i, c := range s {
		switch c {
		case '(', '[':
			depth++
		case ')', ']':
			depth--
		case ',':
			if depth == 0 {
				out = append(out, strings.TrimSpace(s[last:i]))
				last = i + 1
			}
		}
	}
	if t := strings.TrimSpace(s[last:]); t != "" {
		out = append(out, t)
	}
	return out
}
