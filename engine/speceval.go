package main

import (
	"fmt"
	"go/constant"
	"go/types"
	"math/big"
	"strings"
)

type Env struct {
	assuming bool // the expression being evaluated will be assumed (not proved)
	guard    *Term
	ex   *Exec
	cur  *State
	old  *State
	live *State // where definitional axioms are recorded
	vars map[string]Value
	pkg  *types.Package
	rdepth int
}

type specErr struct{ msg string }

func sfail(f string, a ...interface{}) { panic(specErr{fmt.Sprintf(f, a...)}) }

var tBool = types.Typ[types.Bool]
var tString = types.Typ[types.String]
var tInt = types.Typ[types.Int]
var tByte = types.Typ[types.Uint8]

func specInt(t *Term) Value  { return Value{T: nil, L: []*Term{t}} }
func specBool(t *Term) Value { return Value{T: tBool, L: []*Term{t}} }

func (v Value) isNilLit() bool {
	if v.T == nil {
		return false
	}
	b, ok := v.T.(*types.Basic)
	return ok && b.Kind() == types.UntypedNil
}

func (e *Env) with(vars map[string]Value) *Env {
	n := *e
	n.vars = map[string]Value{}
	for k, v := range e.vars {
		n.vars[k] = v
	}
	for k, v := range vars {
		n.vars[k] = v
	}
	return &n
}

func (e *Env) boolTerm(x *SExpr) *Term {
	v := e.eval(x)
	if len(v.L) != 1 || v.L[0].Sort != SBool {
		sfail("expected boolean: %s", x)
	}
	return v.L[0]
}

func (e *Env) intTerm(x *SExpr) *Term {
	v := e.eval(x)
	if len(v.L) != 1 || v.L[0].Sort != SInt {
		sfail("expected scalar int: %s (got %d leaves)", x, len(v.L))
	}
	return v.L[0]
}

// identity term of a value for ghost fields
func identOf(v Value) *Term {
	if v.T != nil {
		if _, ok := v.T.Underlying().(*types.Interface); ok {
			return v.L[1]
		}
	}
	if len(v.L) == 0 {
		sfail("value of type %s has no identity", v.T)
	}
	return v.L[0]
}

func (e *Env) eval(x *SExpr) Value {
	e.ex.specLive = e.live
	switch x.Kind {
	case "num":
		return specInt(Int(x.Num))
	case "str":
		return Value{T: tString, L: []*Term{strConst(x.Str)}}
	case "ident":
		return e.evalIdent(x.Name)
	case "ghost":
		if x.Name == "alloc" {
			return specInt(e.cur.Alloc)
		}
		return specInt(e.cur.ghost(x.Name, e.ex.specs.ghostSort(x.Name)))
	case "gfield":
		base := e.eval(x.Args[0])
		s := e.ex.specs.ghostSort(x.Name)
		t := Select(e.cur.heapArr("#"+x.Name, s), identOf(base))
		if x.Name == "pos" {
			// a stream position never exceeds the (finite) number of bytes the stream will deliver
			e.live.assume(And(Le(Int(0), t), Le(t, UF("streamlen", SInt, identOf(base)))))
		}
		if x.Name == "blen" {
			e.live.assume(And(Le(Int(0), t), Lt(t, IntB(pow2[32]))))
		}
		if s == SBool {
			return specBool(t)
		}
		return specInt(t)
	case "field":
		if x.Args[0].Kind == "ident" {
			if _, isVar := e.vars[x.Args[0].Name]; !isVar {
				if p := e.ex.pkgByName(x.Args[0].Name); p != nil {
					return e.pkgMember(p, x.Name)
				}
			}
		}
		base := e.eval(x.Args[0])
		return e.fieldOf(base, x.Name)
	case "index":
		base := e.eval(x.Args[0])
		if base.T == nil {
			sfail("index on untyped value: %s", x)
		}
		switch u := base.T.Underlying().(type) {
		case *types.Slice:
			i := e.intTerm(x.Args[1])
			return e.cur.loadElem(base.Arr(), Add(base.Off(), i), u.Elem())
		case *types.Map:
			k := e.eval(x.Args[1])
			return e.ex.mapLoad(e.cur, base, k.L[0])
		case *types.Basic:
			if u.Info()&types.IsString != 0 {
				i := e.intTerm(x.Args[1])
				return specInt(UF("sbyte", SInt, base.L[0], i))
			}
		}
		sfail("index on %s", base.T)
	case "unop":
		switch x.Name {
		case "!":
			return specBool(Not(e.boolTerm(x.Args[0])))
		case "-":
			return specInt(Neg(e.intTerm(x.Args[0])))
		}
	case "cond":
		c := e.boolTerm(x.Args[0])
		a := e.eval(x.Args[1])
		b := e.eval(x.Args[2])
		if len(a.L) != len(b.L) && !a.isNilLit() && !b.isNilLit() {
			sfail("cond branches differ in shape: %s", x)
		}
		// a nil literal adapts to the shape of the other branch
		if a.isNilLit() && !b.isNilLit() {
			a = Value{T: b.T, L: make([]*Term, len(b.L))}
			for i := range a.L {
				a.L[i] = Int(0)
			}
		} else if b.isNilLit() && !a.isNilLit() {
			b = Value{T: a.T, L: make([]*Term, len(a.L))}
			for i := range b.L {
				b.L[i] = Int(0)
			}
		}
		r := Value{T: a.T, L: make([]*Term, len(a.L))}
		for i := range a.L {
			r.L[i] = Ite(c, a.L[i], b.L[i])
		}
		return r
	case "binop":
		if e.assuming && (x.Name == "==>" ) {
			// keep track of the guard under which nested each() facts hold
			c := e.boolTerm(x.Args[0])
			n := *e
			if e.guard == nil {
				n.guard = c
			} else {
				n.guard = And(e.guard, c)
			}
			return specBool(Implies(c, n.boolTerm(x.Args[1])))
		}
		if e.assuming && x.Name == "&&" {
			return specBool(And(e.boolTerm(x.Args[0]), e.boolTerm(x.Args[1])))
		}
		return e.evalBin(x)
	case "forall":
		vars := map[string]Value{}
		var bound []*Term
		for _, v := range x.Vars {
			e.ex.fresh++
			bv := Var(fmt.Sprintf("q!%s!%d", v, e.ex.fresh), SInt)
			bound = append(bound, bv)
			vars[v] = specInt(bv)
		}
		body := e.with(vars).boolTerm(x.Args[0])
		return specBool(Forall(bound, body))
	case "call":
		return e.evalCall(x)
	}
	sfail("cannot evaluate %s", x)
	return Value{}
}

func (e *Env) evalIdent(name string) Value {
	if v, ok := e.vars[name]; ok {
		return v
	}
	switch name {
	case "nil":
		return Value{T: types.Typ[types.UntypedNil], L: []*Term{Int(0)}}
	case "true":
		return specBool(tTrue)
	case "false":
		return specBool(tFalse)
	}
	if e.pkg != nil {
		if obj := e.pkg.Scope().Lookup(name); obj != nil {
			return e.objValue(obj)
		}
	}
	sfail("unknown identifier %q", name)
	return Value{}
}

func (e *Env) pkgMember(p *types.Package, name string) Value {
	obj := p.Scope().Lookup(name)
	if obj == nil {
		sfail("package %s has no member %s", p.Name(), name)
	}
	return e.objValue(obj)
}

func (e *Env) objValue(obj types.Object) Value {
	switch o := obj.(type) {
	case *types.Const:
		return constValue(o.Type(), o.Val())
	case *types.Var:
		return e.ex.loadGlobal(e.cur, o.Pkg().Path()+"."+o.Name(), o.Type())
	}
	sfail("cannot use %s in a specification", obj)
	return Value{}
}

func constValue(t types.Type, c constant.Value) Value {
	switch c.Kind() {
	case constant.Bool:
		return Value{T: t, L: []*Term{Bool(constant.BoolVal(c))}}
	case constant.String:
		return Value{T: t, L: []*Term{strConst(constant.StringVal(c))}}
	case constant.Int:
		bi, ok := new(big.Int).SetString(c.ExactString(), 10)
		if !ok {
			sfail("bad int const %s", c)
		}
		return Value{T: t, L: []*Term{IntB(bi)}}
	}
	sfail("unsupported constant kind %s", c)
	return Value{}
}

func (e *Env) fieldOf(base Value, name string) Value {
	if base.T == nil {
		sfail("field %s of untyped value", name)
	}
	if name == "*" {
		sfail("x.* only allowed in modifies")
	}
	if tup, ok := base.T.(*types.Tuple); ok {
		var idx int
		fmt.Sscanf(name, "%d", &idx)
		off := 0
		for j := 0; j < idx; j++ {
			off += len(leavesOf(tup.At(j).Type()))
		}
		ft := tup.At(idx).Type()
		return Value{T: ft, L: base.L[off : off+len(leavesOf(ft))]}
	}
	obj, index, _ := types.LookupFieldOrMethod(base.T, true, e.pkgOrNil(base.T), name)
	fv, ok := obj.(*types.Var)
	if !ok || !fv.IsField() {
		sfail("type %s has no field %s", base.T, name)
	}
	cur := base
	for _, ix := range index {
		cur = e.ex.stepField(e.cur, cur, ix)
	}
	return cur
}

func (e *Env) pkgOrNil(t types.Type) *types.Package {
	// allow access to unexported fields of the type's own package
	tt := deref(t)
	if n, ok := tt.(*types.Named); ok && n.Obj().Pkg() != nil {
		return n.Obj().Pkg()
	}
	return e.pkg
}

// stepField moves from a value (pointer-to-struct or struct) to its field ix.
func (ex *Exec) stepField(st *State, cur Value, ix int) Value {
	if p, ok := cur.T.Underlying().(*types.Pointer); ok {
		stt := p.Elem().Underlying().(*types.Struct)
		f := stt.Field(ix)
		return ex.loadFieldAt(st, cur.L[0], p.Elem(), "", stt, ix, f.Type())
	}
	stt, ok := cur.T.Underlying().(*types.Struct)
	if !ok {
		sfail("field access on non-struct %s", cur.T)
	}
	if len(cur.L) == 1 && len(leavesOf(cur.T)) != 1 {
		// struct held by address (pseudo value)
		return ex.loadFieldAt(st, cur.L[0], cur.T, "", stt, ix, stt.Field(ix).Type())
	}
	return cur.field(ix)
}

// loadFieldAt loads field ix of struct object obj; opaque/array-typed fields yield their derived address.
func (ex *Exec) loadFieldAt(st *State, obj *Term, structT types.Type, prefix string, stt *types.Struct, ix int, ft types.Type) Value {
	if isAddrOnly(ft) {
		return Value{T: ft, L: []*Term{derivedAddr(obj, prefix, stt, ix)}}
	}
	v := st.loadObj(obj, structT, prefix+"."+stt.Field(ix).Name(), ft)
	if ex.specLive != nil {
		ex.assumeLoaded(ex.specLive, v)
	}
	return v
}

func isAddrOnly(t types.Type) bool {
	if isOpaque(t) {
		return true
	}
	_, isArr := t.Underlying().(*types.Array)
	return isArr
}

// derivedAddr: address id of an embedded opaque struct / array field: -(obj*64 + k)
func derivedAddr(obj *Term, prefix string, stt *types.Struct, ix int) *Term {
	k := int64(ix + 1)
	if prefix != "" {
		k += int64(len(prefix)%7) * 8 // nested value structs: rough disambiguation
	}
	return Neg(Add(Mul(obj, Int(64)), Int(k)))
}

func (e *Env) evalBin(x *SExpr) Value {
	op := x.Name
	switch op {
	case "&&":
		return specBool(And(e.boolTerm(x.Args[0]), e.boolTerm(x.Args[1])))
	case "||":
		return specBool(Or(e.boolTerm(x.Args[0]), e.boolTerm(x.Args[1])))
	case "==>":
		return specBool(Implies(e.boolTerm(x.Args[0]), e.boolTerm(x.Args[1])))
	case "<==>":
		return specBool(Eq(e.boolTerm(x.Args[0]), e.boolTerm(x.Args[1])))
	case "==", "!=":
		a := e.eval(x.Args[0])
		b := e.eval(x.Args[1])
		t := valuesEqual(a, b)
		if op == "!=" {
			t = Not(t)
		}
		return specBool(t)
	}
	a := e.intTerm(x.Args[0])
	b := e.intTerm(x.Args[1])
	switch op {
	case "+":
		return specInt(Add(a, b))
	case "-":
		return specInt(Sub(a, b))
	case "*":
		return specInt(Mul(a, b))
	case "/":
		return specInt(Div(a, b))
	case "%":
		return specInt(Mod(a, b))
	case "<":
		return specBool(Lt(a, b))
	case "<=":
		return specBool(Le(a, b))
	case ">":
		return specBool(Gt(a, b))
	case ">=":
		return specBool(Ge(a, b))
	}
	sfail("unknown operator %s", op)
	return Value{}
}

func valuesEqual(a, b Value) *Term {
	if a.isNilLit() && b.isNilLit() {
		return tTrue
	}
	if b.isNilLit() {
		a, b = b, a
	}
	if a.isNilLit() {
		if b.T == nil {
			return Eq(b.L[0], Int(0))
		}
		switch b.T.Underlying().(type) {
		case *types.Slice:
			return Eq(b.L[0], Int(0))
		case *types.Interface:
			return Eq(b.L[0], Int(0))
		default:
			return Eq(b.L[0], Int(0))
		}
	}
	if len(a.L) != len(b.L) {
		sfail("comparison of values with different shapes (%v vs %v)", a.T, b.T)
	}
	var cs []*Term
	for i := range a.L {
		cs = append(cs, Eq(a.L[i], b.L[i]))
	}
	return And(cs...)
}

func (s *SpecDB) ghostSort(name string) string {
	if t, ok := s.GhostSort[name]; ok {
		return t
	}
	return SInt
}

func (e *Env) evalCall(x *SExpr) Value {
	name := x.Name
	arg := func(i int) Value { return e.eval(x.Args[i]) }
	need := func(n int) {
		if len(x.Args) != n {
			sfail("%s expects %d arguments", name, n)
		}
	}
	switch name {
	case "each": // each(slice, x, pred): every element x of slice satisfies pred
		need(3)
		sv := arg(0)
		sl, ok := sv.T.Underlying().(*types.Slice)
		if !ok {
			sfail("each over non-slice")
		}
		vn := x.Args[1].Name
		if e.assuming {
			g := e.guard
			if g == nil {
				g = tTrue
			}
			cp := *e
			cp.assuming = false
			e.live.Each = append(e.live.Each, &EachFact{Arr: sv.Arr(), Off: sv.Off(), Len: sv.Len(), ElemKey: typeKey(sl.Elem()), Var: vn, Pred: x.Args[2], Env: &cp, Guard: g})
		}
		e.ex.fresh++
		j := Var(fmt.Sprintf("q!each!%d", e.ex.fresh), SInt)
		elem := e.cur.loadElem(sv.Arr(), Add(sv.Off(), j), sl.Elem())
		body := e.with(map[string]Value{vn: elem}).boolTerm(x.Args[2])
		return specBool(Forall([]*Term{j}, Implies(And(Le(Int(0), j), Lt(j, sv.Len())), body)))
	case "old":
		need(1)
		n := *e
		n.cur = e.old
		return n.eval(x.Args[0])
	case "len":
		need(1)
		v := arg(0)
		if v.T == nil {
			sfail("len of untyped")
		}
		switch u := v.T.Underlying().(type) {
		case *types.Slice:
			return specInt(v.Len())
		case *types.Basic:
			if u.Info()&types.IsString != 0 {
				return specInt(UF("slen", SInt, v.L[0]))
			}
		case *types.Map:
			return specInt(Select(e.cur.heapArr("mapsize:"+typeKey(v.T), SInt), v.L[0]))
		}
		sfail("len of %s", v.T)
	case "cap":
		need(1)
		return specInt(arg(0).Cap())
	case "arr":
		need(1)
		return specInt(arg(0).Arr())
	case "off":
		need(1)
		return specInt(arg(0).Off())
	case "end": // off+len
		need(1)
		v := arg(0)
		return specInt(Add(v.Off(), v.Len()))
	case "mem": // byte memory at absolute (arr, idx)
		need(2)
		return specInt(e.cur.mem(memName(tByte, ""), SInt).read(e.intTerm(x.Args[0]), e.intTerm(x.Args[1])))
	case "min":
		need(2)
		return specInt(Min(e.intTerm(x.Args[0]), e.intTerm(x.Args[1])))
	case "max":
		need(2)
		return specInt(Max(e.intTerm(x.Args[0]), e.intTerm(x.Args[1])))
	case "fresh":
		need(1)
		return specBool(Gt(identOf(arg(0)), e.old.Alloc))
	case "allocated": // existed before the call
		need(1)
		return specBool(Le(identOf(arg(0)), e.old.Alloc))
	case "slen":
		need(1)
		return specInt(UF("slen", SInt, arg(0).L[0]))
	case "nulfree":
		need(1)
		return specBool(UF("nulfree", SBool, arg(0).L[0]))
	case "itoa":
		need(1)
		return Value{T: tString, L: []*Term{UF("itoa", SInt, e.intTerm(x.Args[0]))}}
	case "captured": // captured(f, "name"): value of free variable name captured by closure value f
		need(2)
		return specInt(UF("closure.fv."+x.Args[1].Str, SInt, identOf(arg(0))))
	case "closurefn": // identity of the function a closure value was made from
		need(1)
		return specInt(UF("closure.fn", SInt, identOf(arg(0))))
	case "bufarr":
		need(1)
		return specInt(bufArr(identOf(arg(0))))
	case "viewarr":
		need(1)
		return specInt(UF("sview.arr", SInt, arg(0).L[0]))
	case "viewoff":
		need(1)
		return specInt(UF("sview.off", SInt, arg(0).L[0]))
	case "tag":
		need(1)
		return specInt(arg(0).L[0])
	case "val":
		need(1)
		return specInt(arg(0).L[1])
	case "id":
		need(1)
		return specInt(identOf(arg(0)))
	case "typeis":
		need(2)
		v := arg(0)
		tn := x.Args[1].Str
		id := e.ex.tagByName(tn)
		return specBool(Eq(v.L[0], Int(int64(id))))
	case "cast":
		need(2)
		v := arg(0)
		t := e.ex.typeByName(x.Args[1].Str)
		if t == nil {
			sfail("cast: unknown type %q", x.Args[1].Str)
		}
		return e.ex.unbox(e.cur, v.L[1], t)
	case "extunwrap": // wrapped error of a non-repo error value (trusted: errors.Unwrap)
		need(1)
		v := arg(0)
		return Value{T: errorType, L: []*Term{UF("unwrap.tag", SInt, v.L[0], v.L[1]), UF("unwrap.val", SInt, v.L[0], v.L[1])}}
	case "streamlen":
		need(1)
		return specInt(UF("streamlen", SInt, identOf(arg(0))))
	case "chanclosed":
		need(1)
		return specBool(Select(e.cur.heapArr("#chanclosed", SBool), arg(0).L[0]))
	case "nilerr":
		need(0)
		return Value{T: errorType, L: []*Term{Int(0), Int(0)}}
	case "errtext":
		need(1)
		v := arg(0)
		return Value{T: tString, L: []*Term{UF("errtext", SInt, v.L[0], v.L[1])}}
	case "stream":
		need(2)
		return specInt(UF("stream", SInt, identOf(arg(0)), e.intTerm(x.Args[1])))
	case "wrap8u", "wrap16u", "wrap32u", "wrap64u", "wrap16", "wrap32", "wrap64":
		need(1)
		bits := map[string]int{"wrap8u": 8, "wrap16u": 16, "wrap32u": 32, "wrap64u": 64, "wrap16": 16, "wrap32": 32, "wrap64": 64}[name]
		return specInt(Wrap(e.intTerm(x.Args[0]), bits, !strings.HasSuffix(name, "u")))
	case "ite":
		need(3)
		return e.eval(&SExpr{Kind: "cond", Args: x.Args})
	case "uf": // uf("name", args...) : uninterpreted Int function
		var as []*Term
		for _, a := range x.Args[1:] {
			as = append(as, e.eval(a).L...)
		}
		return specInt(UF("u."+x.Args[0].Str, SInt, as...))
	case "ufs": // uninterpreted string-valued function
		var as []*Term
		for _, a := range x.Args[1:] {
			as = append(as, e.eval(a).L...)
		}
		return Value{T: tString, L: []*Term{UF("u."+x.Args[0].Str, SInt, as...)}}
	case "cstr": // the C string starting at byte memory cell (a, i)
		need(2)
		return Value{T: tString, L: []*Term{UF("cstr", SInt, e.intTerm(x.Args[0]), e.intTerm(x.Args[1]))}}
	case "ufb":
		var as []*Term
		for _, a := range x.Args[1:] {
			as = append(as, e.eval(a).L...)
		}
		return specBool(UF("u."+x.Args[0].Str, SBool, as...))
	case "mapdom":
		need(2)
		m := arg(0)
		k := arg(1)
		return specBool(And(Ne(m.L[0], Int(0)), Select(Select(e.cur.heapArrS("mapdom:"+typeKey(m.T), SArr2B), m.L[0]), k.L[0])))
	case "ctxval": // ctxval(ctx, key) -> interface value; key: interface value or a ctxKey number
		need(2)
		c := arg(0)
		kv := arg(1)
		var kt, kvv *Term
		if len(kv.L) == 2 {
			kt, kvv = kv.L[0], kv.L[1]
		} else {
			kt, kvv = Int(int64(e.ex.tagByName("wire.ctxKey"))), kv.L[0]
		}
		cvT, cvV := UF("ctxval.tag", SInt, c.L[1], kt, kvv), UF("ctxval.val", SInt, c.L[1], kt, kvv)
		e.live.assume(And(Le(Int(0), cvT), Implies(Eq(cvT, Int(0)), Eq(cvV, Int(0)))))
		return Value{T: anyType, L: []*Term{cvT, cvV}}
	case "box": // the interface value holding x
		need(1)
		v := arg(0)
		if v.T == nil {
			sfail("box of untyped value")
		}
		if _, isIface := v.T.Underlying().(*types.Interface); isIface {
			return Value{T: anyType, L: v.L}
		}
		return e.ex.makeInterface(e.live, v, v.T, anyType)
	case "ctxerr": // the (stable) cancellation error of a context
		need(1)
		c := arg(0)
		return Value{T: errorType, L: []*Term{UF("ctxerr.tag", SInt, c.L[1]), UF("ctxerr.val", SInt, c.L[1])}}
	case "implements":
		need(2)
		v := arg(0)
		return specBool(UF("implements."+x.Args[1].Str, SBool, v.L[0]))
	case "ctxkey": // interface value of the package's context key number k
		need(1)
		return Value{T: anyType, L: []*Term{Int(int64(e.ex.tagByName("wire.ctxKey"))), e.intTerm(x.Args[0])}}
	}
	sf, ok := e.ex.specs.Funcs[name]
	if !ok {
		sfail("unknown spec function %s", name)
	}
	if len(sf.Params) != len(x.Args) {
		sfail("%s expects %d arguments", name, len(sf.Params))
	}
	vars := map[string]Value{}
	var flat []*Term
	for i, p := range sf.Params {
		v := arg(i)
		if sf.Rec {
			// name large argument terms so that unfoldings stay small
			nv := Value{T: v.T, L: make([]*Term, len(v.L))}
			for j, t := range v.L {
				nv.L[j] = e.ex.nameTerm(e.live, t)
			}
			v = nv
		}
		vars[p] = v
		flat = append(flat, v.L...)
	}
	if !sf.Rec {
		if e.rdepth > 40 {
			sfail("spec function expansion too deep at %s", name)
		}
		n := e.with(vars)
		n.rdepth = e.rdepth + 1
		return n.eval(sf.Body)
	}
	app := UF("spec."+name, sf.Sort, flat...)
	key := app.String()
	if e.rdepth < 5 && !e.live.Defs[key] {
		e.live.Defs[key] = true
		n := e.with(vars)
		n.rdepth = e.rdepth + 1
		body := n.eval(sf.Body)
		if len(body.L) != 1 {
			sfail("recursive spec function %s must be scalar", name)
		}
		e.live.assume(Eq(app, body.L[0]))
	}
	if sf.Sort == SBool {
		return specBool(app)
	}
	return specInt(app)
}

var anyType = types.NewInterfaceType(nil, nil)

func (s *State) heapArrS(name, arrSort string) *Term {
	if t, ok := s.Heap[name]; ok {
		return t
	}
	t := Var("H0."+name, arrSort)
	s.Heap[name] = t
	return t
}

// nameTerm introduces a fresh constant for a large term (definitional equality recorded in st).
func (ex *Exec) nameTerm(st *State, t *Term) *Term {
	if t.Op == "int" || t.Op == "var" || t.Op == "true" || t.Op == "false" || len(t.String()) < 120 {
		return t
	}
	key := "name:" + t.String()
	if v, ok := ex.named[key]; ok {
		if !st.Defs[key] {
			st.Defs[key] = true
			st.assume(Eq(v, t))
		}
		return v
	}
	v := ex.freshVar("nm", t.Sort)
	if ex.named == nil {
		ex.named = map[string]*Term{}
	}
	ex.named[key] = v
	st.Defs[key] = true
	st.assume(Eq(v, t))
	return v
}
