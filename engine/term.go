package main

// Terms: a small SMT-LIB term language with constructor-side simplification.
// Sorts are SMT-LIB sort strings.

import (
	"fmt"
	"math/big"
	"sort"
	"strings"
)

const (
	SInt   = "Int"
	SBool  = "Bool"
	SArrI  = "(Array Int Int)"
	SArrB  = "(Array Int Bool)"
	SArr2I = "(Array Int (Array Int Int))"
	SArr2B = "(Array Int (Array Int Bool))"
)

type Term struct {
	Op   string // "int", "var", "uf", or a builtin operator name
	Name string // var / uf name
	Args []*Term
	Sort string
	Int  *big.Int
	// quantifier support
	Bound []*Term // for Op=="forall": bound variables (Op=="var")
	Pat   []*Term // optional patterns
	str   string
}

var ufSigs = map[string]string{} // uf name -> "(args) ret" declaration tail

func Int(v int64) *Term          { return &Term{Op: "int", Sort: SInt, Int: big.NewInt(v)} }
func IntB(v *big.Int) *Term      { return &Term{Op: "int", Sort: SInt, Int: new(big.Int).Set(v)} }
func Var(name, s string) *Term   { return &Term{Op: "var", Name: name, Sort: s} }
func (t *Term) IsInt() bool      { return t.Op == "int" }
func (t *Term) IsTrue() bool     { return t.Op == "true" }
func (t *Term) IsFalse() bool    { return t.Op == "false" }
func (t *Term) IsConstBool() bool { return t.Op == "true" || t.Op == "false" }

var tTrue = &Term{Op: "true", Sort: SBool}
var tFalse = &Term{Op: "false", Sort: SBool}

func Bool(b bool) *Term {
	if b {
		return tTrue
	}
	return tFalse
}

func UF(name, ret string, args ...*Term) *Term {
	var as []string
	for _, a := range args {
		as = append(as, a.Sort)
	}
	sig := "(" + strings.Join(as, " ") + ") " + ret
	if old, ok := ufSigs[name]; ok && old != sig {
		panic(fmt.Sprintf("uf %s redeclared: %s vs %s", name, old, sig))
	}
	ufSigs[name] = sig
	if len(args) == 0 {
		return Var(name, ret)
	}
	return &Term{Op: "uf", Name: name, Args: args, Sort: ret}
}

func mk(op, s string, args ...*Term) *Term { return &Term{Op: op, Sort: s, Args: args} }

func (t *Term) String() string {
	if t.str != "" {
		return t.str
	}
	var s string
	switch t.Op {
	case "int":
		if t.Int.Sign() < 0 {
			s = "(- " + new(big.Int).Neg(t.Int).String() + ")"
		} else {
			s = t.Int.String()
		}
	case "var":
		s = smtName(t.Name)
	case "true", "false":
		s = t.Op
	case "constarr":
		s = "((as const " + t.Sort + ") " + t.Args[0].String() + ")"
	case "forall":
		var b strings.Builder
		b.WriteString("(forall (")
		for _, v := range t.Bound {
			fmt.Fprintf(&b, "(%s %s)", smtName(v.Name), v.Sort)
		}
		b.WriteString(") ")
		if len(t.Pat) > 0 {
			b.WriteString("(! ")
			b.WriteString(t.Args[0].String())
			b.WriteString(" :pattern (")
			for i, p := range t.Pat {
				if i > 0 {
					b.WriteString(" ")
				}
				b.WriteString(p.String())
			}
			b.WriteString("))")
		} else {
			b.WriteString(t.Args[0].String())
		}
		b.WriteString(")")
		s = b.String()
	default:
		var b strings.Builder
		b.WriteString("(")
		if t.Op == "uf" {
			b.WriteString(smtName(t.Name))
		} else {
			b.WriteString(t.Op)
		}
		for _, a := range t.Args {
			b.WriteString(" ")
			b.WriteString(a.String())
		}
		b.WriteString(")")
		s = b.String()
	}
	t.str = s
	return s
}

func smtName(n string) string {
	simple := true
	for _, c := range n {
		if !(c >= 'a' && c <= 'z' || c >= 'A' && c <= 'Z' || c >= '0' && c <= '9' || c == '_' || c == '.' || c == '!' || c == '$' || c == '@') {
			simple = false
			break
		}
	}
	if simple && n != "" && !(n[0] >= '0' && n[0] <= '9') {
		return n
	}
	return "|" + strings.ReplaceAll(n, "|", "_") + "|"
}

func Eq(a, b *Term) *Term {
	if a.Sort != b.Sort {
		panic(fmt.Sprintf("Eq sort mismatch: %s:%s vs %s:%s", a, a.Sort, b, b.Sort))
	}
	if a.IsInt() && b.IsInt() {
		return Bool(a.Int.Cmp(b.Int) == 0)
	}
	if a.Sort == SBool {
		if a.IsTrue() {
			return b
		}
		if b.IsTrue() {
			return a
		}
		if a.IsFalse() {
			return Not(b)
		}
		if b.IsFalse() {
			return Not(a)
		}
	}
	if a == b || a.String() == b.String() {
		return tTrue
	}
	// lift equality with a constant through an if-then-else with constant branches
	if a.Op == "ite" && b.IsInt() && (a.Args[1].IsInt() || a.Args[2].IsInt()) {
		return Ite(a.Args[0], Eq(a.Args[1], b), Eq(a.Args[2], b))
	}
	if b.Op == "ite" && a.IsInt() && (b.Args[1].IsInt() || b.Args[2].IsInt()) {
		return Ite(b.Args[0], Eq(a, b.Args[1]), Eq(a, b.Args[2]))
	}
	return mk("=", SBool, a, b)
}
func Ne(a, b *Term) *Term { return Not(Eq(a, b)) }

func Not(a *Term) *Term {
	switch a.Op {
	case "true":
		return tFalse
	case "false":
		return tTrue
	case "not":
		return a.Args[0]
	}
	return mk("not", SBool, a)
}

func And(as ...*Term) *Term {
	var out []*Term
	for _, a := range as {
		if a.IsTrue() {
			continue
		}
		if a.IsFalse() {
			return tFalse
		}
		if a.Op == "and" {
			out = append(out, a.Args...)
		} else {
			out = append(out, a)
		}
	}
	if len(out) == 0 {
		return tTrue
	}
	if len(out) == 1 {
		return out[0]
	}
	return mk("and", SBool, out...)
}

func Or(as ...*Term) *Term {
	var out []*Term
	for _, a := range as {
		if a.IsFalse() {
			continue
		}
		if a.IsTrue() {
			return tTrue
		}
		if a.Op == "or" {
			out = append(out, a.Args...)
		} else {
			out = append(out, a)
		}
	}
	if len(out) == 0 {
		return tFalse
	}
	if len(out) == 1 {
		return out[0]
	}
	return mk("or", SBool, out...)
}

func Implies(a, b *Term) *Term {
	if a.IsTrue() {
		return b
	}
	if a.IsFalse() || b.IsTrue() {
		return tTrue
	}
	if b.IsFalse() {
		return Not(a)
	}
	return mk("=>", SBool, a, b)
}

func Ite(c, a, b *Term) *Term {
	if c.IsTrue() {
		return a
	}
	if c.IsFalse() {
		return b
	}
	if a.Sort != b.Sort {
		panic(fmt.Sprintf("Ite sort mismatch %s vs %s", a.Sort, b.Sort))
	}
	if a.String() == b.String() {
		return a
	}
	if a.Sort == SBool {
		if a.IsTrue() && b.IsFalse() {
			return c
		}
		if a.IsFalse() && b.IsTrue() {
			return Not(c)
		}
		if a.IsTrue() {
			return Or(c, b)
		}
		if a.IsFalse() {
			return And(Not(c), b)
		}
		if b.IsTrue() {
			return Or(Not(c), a)
		}
		if b.IsFalse() {
			return And(c, a)
		}
	}
	return mk("ite", a.Sort, c, a, b)
}

func Add(a, b *Term) *Term {
	if a.IsInt() && b.IsInt() {
		return IntB(new(big.Int).Add(a.Int, b.Int))
	}
	if a.IsInt() && a.Int.Sign() == 0 {
		return b
	}
	if b.IsInt() && b.Int.Sign() == 0 {
		return a
	}
	// (x + c1) + c2
	if b.IsInt() && a.Op == "+" && len(a.Args) == 2 && a.Args[1].IsInt() {
		return Add(a.Args[0], IntB(new(big.Int).Add(a.Args[1].Int, b.Int)))
	}
	if a.IsInt() {
		return Add(b, a)
	}
	if b.IsInt() && b.Int.Sign() < 0 {
		return mk("-", SInt, a, IntB(new(big.Int).Neg(b.Int)))
	}
	return mk("+", SInt, a, b)
}

func Sub(a, b *Term) *Term {
	if a.IsInt() && b.IsInt() {
		return IntB(new(big.Int).Sub(a.Int, b.Int))
	}
	if b.IsInt() {
		return Add(a, IntB(new(big.Int).Neg(b.Int)))
	}
	if a.String() == b.String() {
		return Int(0)
	}
	// (x - c) normal form handled by Add; here general
	if a.Op == "-" && len(a.Args) == 2 && a.Args[1].IsInt() {
		// (x - c) - b
		return mk("-", SInt, mk("-", SInt, a.Args[0], b), a.Args[1])
	}
	return mk("-", SInt, a, b)
}

func Neg(a *Term) *Term { return Sub(Int(0), a) }

func Mul(a, b *Term) *Term {
	if a.IsInt() && b.IsInt() {
		return IntB(new(big.Int).Mul(a.Int, b.Int))
	}
	if a.IsInt() && a.Int.Cmp(big.NewInt(1)) == 0 {
		return b
	}
	if b.IsInt() && b.Int.Cmp(big.NewInt(1)) == 0 {
		return a
	}
	if a.IsInt() && a.Int.Sign() == 0 || b.IsInt() && b.Int.Sign() == 0 {
		return Int(0)
	}
	return mk("*", SInt, a, b)
}

// Euclidean div/mod as in SMT-LIB; callers translate Go's truncated semantics.
func Div(a, b *Term) *Term {
	if a.IsInt() && b.IsInt() && b.Int.Sign() > 0 {
		q, _ := new(big.Int).DivMod(a.Int, b.Int, new(big.Int))
		return IntB(q)
	}
	return mk("div", SInt, a, b)
}
func Mod(a, b *Term) *Term {
	if a.IsInt() && b.IsInt() && b.Int.Sign() > 0 {
		_, m := new(big.Int).DivMod(a.Int, b.Int, new(big.Int))
		return IntB(m)
	}
	return mk("mod", SInt, a, b)
}

func cmp(op string, a, b *Term) *Term {
	if a.IsInt() && b.IsInt() {
		c := a.Int.Cmp(b.Int)
		switch op {
		case "<":
			return Bool(c < 0)
		case "<=":
			return Bool(c <= 0)
		case ">":
			return Bool(c > 0)
		case ">=":
			return Bool(c >= 0)
		}
	}
	if a.String() == b.String() {
		return Bool(op == "<=" || op == ">=")
	}
	if a.Op == "ite" && b.IsInt() && a.Args[1].IsInt() && a.Args[2].IsInt() {
		return Ite(a.Args[0], cmp(op, a.Args[1], b), cmp(op, a.Args[2], b))
	}
	if b.Op == "ite" && a.IsInt() && b.Args[1].IsInt() && b.Args[2].IsInt() {
		return Ite(b.Args[0], cmp(op, a, b.Args[1]), cmp(op, a, b.Args[2]))
	}
	return mk(op, SBool, a, b)
}
func Lt(a, b *Term) *Term { return cmp("<", a, b) }
func Le(a, b *Term) *Term { return cmp("<=", a, b) }
func Gt(a, b *Term) *Term { return cmp(">", a, b) }
func Ge(a, b *Term) *Term { return cmp(">=", a, b) }

func elemSort(arr string) string {
	switch arr {
	case SArrI:
		return SInt
	case SArrB:
		return SBool
	case SArr2I:
		return SArrI
	case SArr2B:
		return SArrB
	}
	panic("elemSort " + arr)
}

func Select(a, i *Term) *Term {
	// read-over-write simplification
	for a.Op == "store" {
		e := Eq(a.Args[1], i)
		if e.IsTrue() {
			return a.Args[2]
		}
		if e.IsFalse() {
			a = a.Args[0]
			continue
		}
		break
	}
	if a.Op == "constarr" {
		return a.Args[0]
	}
	return mk("select", elemSort(a.Sort), a, i)
}

func Store(a, i, v *Term) *Term {
	if v.Sort != elemSort(a.Sort) {
		panic(fmt.Sprintf("Store sort mismatch %s into %s", v.Sort, a.Sort))
	}
	return mk("store", a.Sort, a, i, v)
}

func ConstArr(sort string, v *Term) *Term {
	return &Term{Op: "constarr", Sort: sort, Args: []*Term{v}}
}

func Forall(bound []*Term, body *Term, pats ...*Term) *Term {
	if body.IsTrue() {
		return tTrue
	}
	return &Term{Op: "forall", Sort: SBool, Bound: bound, Args: []*Term{body}, Pat: pats}
}

func Min(a, b *Term) *Term { return Ite(Le(a, b), a, b) }
func Max(a, b *Term) *Term { return Ite(Ge(a, b), a, b) }

// substitute variables by name
func Subst(t *Term, m map[string]*Term) *Term {
	if len(m) == 0 {
		return t
	}
	switch t.Op {
	case "int", "true", "false":
		return t
	case "var":
		if r, ok := m[t.Name]; ok {
			return r
		}
		return t
	}
	changed := false
	args := make([]*Term, len(t.Args))
	for i, a := range t.Args {
		args[i] = Subst(a, m)
		if args[i] != a {
			changed = true
		}
	}
	if !changed {
		return t
	}
	if t.Op == "forall" {
		return &Term{Op: "forall", Sort: SBool, Bound: t.Bound, Args: args, Pat: t.Pat}
	}
	return rebuild(t, args)
}

func rebuild(t *Term, args []*Term) *Term {
	switch t.Op {
	case "=":
		return Eq(args[0], args[1])
	case "not":
		return Not(args[0])
	case "and":
		return And(args...)
	case "or":
		return Or(args...)
	case "=>":
		return Implies(args[0], args[1])
	case "ite":
		return Ite(args[0], args[1], args[2])
	case "+":
		if len(args) == 2 {
			return Add(args[0], args[1])
		}
	case "-":
		if len(args) == 2 {
			return Sub(args[0], args[1])
		}
	case "*":
		if len(args) == 2 {
			return Mul(args[0], args[1])
		}
	case "<", "<=", ">", ">=":
		return cmp(t.Op, args[0], args[1])
	case "select":
		return Select(args[0], args[1])
	case "div":
		return Div(args[0], args[1])
	case "mod":
		return Mod(args[0], args[1])
	}
	return &Term{Op: t.Op, Name: t.Name, Args: args, Sort: t.Sort, Int: t.Int}
}

// collectSyms gathers free variables and UF names.
func collectSyms(t *Term, vars map[string]string, ufs map[string]bool, bound map[string]bool) {
	switch t.Op {
	case "int", "true", "false":
		return
	case "var":
		if !bound[t.Name] {
			vars[t.Name] = t.Sort
		}
		return
	case "uf":
		ufs[t.Name] = true
	case "forall":
		nb := map[string]bool{}
		for k := range bound {
			nb[k] = true
		}
		for _, v := range t.Bound {
			nb[v.Name] = true
		}
		collectSyms(t.Args[0], vars, ufs, nb)
		for _, p := range t.Pat {
			collectSyms(p, vars, ufs, nb)
		}
		return
	}
	for _, a := range t.Args {
		collectSyms(a, vars, ufs, bound)
	}
}

func hasQuant(t *Term) bool {
	if t.Op == "forall" {
		return true
	}
	for _, a := range t.Args {
		if hasQuant(a) {
			return true
		}
	}
	return false
}

func sortedKeys[V any](m map[string]V) []string {
	ks := make([]string, 0, len(m))
	for k := range m {
		ks = append(ks, k)
	}
	sort.Strings(ks)
	return ks
}

var pow2 = func() []*big.Int {
	r := make([]*big.Int, 70)
	for i := range r {
		r[i] = new(big.Int).Lsh(big.NewInt(1), uint(i))
	}
	return r
}()

// intRange returns [lo,hi] for a bit width and signedness.
func intRange(bits int, signed bool) (*big.Int, *big.Int) {
	if signed {
		lo := new(big.Int).Neg(pow2[bits-1])
		hi := new(big.Int).Sub(pow2[bits-1], big.NewInt(1))
		return lo, hi
	}
	return big.NewInt(0), new(big.Int).Sub(pow2[bits], big.NewInt(1))
}

func InRange(t *Term, bits int, signed bool) *Term {
	lo, hi := intRange(bits, signed)
	return And(Le(IntB(lo), t), Le(t, IntB(hi)))
}

// Wrap reduces an arbitrary integer into the range of the type (exact mod form).
func Wrap(t *Term, bits int, signed bool) *Term {
	if t.IsInt() {
		m := new(big.Int).Mod(t.Int, pow2[bits])
		if signed && m.Cmp(pow2[bits-1]) >= 0 {
			m.Sub(m, pow2[bits])
		}
		return IntB(m)
	}
	if signed {
		return Sub(Mod(Add(t, IntB(pow2[bits-1])), IntB(pow2[bits])), IntB(pow2[bits-1]))
	}
	return Mod(t, IntB(pow2[bits]))
}

// Wrap1 handles a value known to be within one modulus of the range (add/sub of in-range values).
func Wrap1(t *Term, bits int, signed bool) *Term {
	if t.IsInt() {
		return Wrap(t, bits, signed)
	}
	lo, hi := intRange(bits, signed)
	return Ite(Gt(t, IntB(hi)), Sub(t, IntB(pow2[bits])), Ite(Lt(t, IntB(lo)), Add(t, IntB(pow2[bits])), t))
}
