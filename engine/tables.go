package main

import (
	"go/constant"
	"go/types"
	"sort"

	"golang.org/x/tools/go/ssa"
)

// Dispatch tables: a package-level map from constants to functions of the repository, filled by
// a composite literal in the package initialiser and (trusted, like all package-level
// variables) not written afterwards. A lookup in such a table is a case distinction over its
// keys, and a call of the value looked up is a call of one of its functions.

type tableEntry struct {
	key  int64
	fn   *ssa.Function
	elem types.Type // element type of the table
}

var tableCache map[string][]tableEntry

func unthunk(f *ssa.Function) *ssa.Function {
	if f == nil || f.Synthetic == "" || len(f.Blocks) != 1 {
		return f
	}
	// method expression / bound method wrappers: a single call of the real method
	for _, ins := range f.Blocks[0].Instrs {
		if c, ok := ins.(*ssa.Call); ok {
			if callee := c.Common().StaticCallee(); callee != nil {
				return callee
			}
		}
	}
	return f
}

// dispatchTables finds `var T = map[K]func…{k1: f1, …}` in the repository packages.
func (ex *Exec) dispatchTables() map[string][]tableEntry {
	if tableCache != nil {
		return tableCache
	}
	tableCache = map[string][]tableEntry{}
	for _, p := range ex.prog.AllPackages() {
		init := p.Func("init")
		if init == nil || !inRepo(init) {
			continue
		}
		built := map[ssa.Value][]tableEntry{}
		bad := map[ssa.Value]bool{}
		for _, b := range init.Blocks {
			for _, ins := range b.Instrs {
				switch x := ins.(type) {
				case *ssa.MapUpdate:
					mk, isMake := x.Map.(*ssa.MakeMap)
					if !isMake {
						continue
					}
					kc, isConst := x.Key.(*ssa.Const)
					var fn *ssa.Function
					switch v := stripConv(x.Value).(type) {
					case *ssa.Function:
						fn = v
					case *ssa.MakeClosure:
						if len(v.Bindings) == 0 {
							fn, _ = v.Fn.(*ssa.Function)
						}
					}
					if !isConst || kc.Value == nil || kc.Value.Kind() != constant.Int || fn == nil {
						bad[mk] = true
						continue
					}
					k, exact := constant.Int64Val(kc.Value)
					if !exact {
						bad[mk] = true
						continue
					}
					built[mk] = append(built[mk], tableEntry{k, unthunk(fn), mk.Type().Underlying().(*types.Map).Elem()})
				case *ssa.Store:
					g, isG := x.Addr.(*ssa.Global)
					mk, isMake := x.Val.(*ssa.MakeMap)
					if isG && isMake && !bad[mk] && len(built[mk]) > 0 {
						es := built[mk]
						sort.Slice(es, func(i, j int) bool { return es[i].key < es[j].key })
						tableCache[g.Pkg.Pkg.Path()+"."+g.Name()] = es
					}
				}
			}
		}
	}
	return tableCache
}

// tableOf: the dispatch table a map-typed SSA value denotes, if it is a load of such a global.
func (ex *Exec) tableOf(v ssa.Value) []tableEntry {
	if u, ok := v.(*ssa.UnOp); ok {
		if g, isG := u.X.(*ssa.Global); isG {
			if _, isMap := deref(g.Type()).Underlying().(*types.Map); isMap {
				return ex.dispatchTables()[g.Pkg.Pkg.Path()+"."+g.Name()]
			}
		}
	}
	return nil
}

// tableLookup: value and presence of table[key].
func (ex *Exec) tableLookup(es []tableEntry, key *Term) (*Term, *Term) {
	val := Int(0)
	ok := tFalse
	for i := len(es) - 1; i >= 0; i-- {
		hit := Eq(key, Int(es[i].key))
		val = Ite(hit, ex.funcID(es[i].fn), val)
		ok = Or(hit, ok)
	}
	return val, ok
}

// tableFunctions: every function that occurs in a dispatch table whose element type is t.
func (ex *Exec) tableFunctions(t types.Type, sig *types.Signature) []*ssa.Function {
	seen := map[*ssa.Function]bool{}
	var out []*ssa.Function
	for _, es := range ex.dispatchTables() {
		for _, e := range es {
			if !seen[e.fn] && types.Identical(e.elem, t) && sameParams(e.fn.Signature, sig) {
				seen[e.fn] = true
				out = append(out, e.fn)
			}
		}
	}
	sort.Slice(out, func(i, j int) bool { return fnKeyOf(out[i]) < fnKeyOf(out[j]) })
	return out
}

// sameParams: f called through a value of type sig (a method expression has the receiver as its
// first parameter, the method itself keeps it as the receiver).
func sameParams(f, sig *types.Signature) bool {
	n := f.Params().Len()
	if f.Recv() != nil {
		n++
	}
	return n == sig.Params().Len() && f.Results().Len() == sig.Results().Len()
}
