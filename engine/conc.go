package main

import (
	"fmt"

	"golang.org/x/tools/go/ssa"
)

// Rely / guarantee for functions that run concurrently with other goroutines on shared state
// (C16). A contract says `concurrent Name(args)`; the block `interference Name(params)` lists the
// shared locations (`modifies`), what steps of OTHER goroutines may do to them (`rely`, a
// two-state relation over old/new) and what every step of THIS goroutine must respect
// (`guarantee`). Steps are the calls of the function (atomics, sync primitives, channel
// close, callees): before each call the shared locations are havocked within the rely; after
// it the guarantee is an obligation over the state just before and just after the call.
// That the rely is implied by the guarantees of the other goroutines is the usual side
// condition of the method; here every goroutine runs code under the same block (Close,
// consumeSingleCommand), so rely = guarantee clause by clause except for the clauses about
// per-goroutine ghosts (`#mine`-style), whose exclusivity is argued in DESIGN.md.

func (ex *Exec) concBlock() (*Contract, *SExpr) {
	c := ex.specs.Contracts[ex.fnKey]
	if c == nil || c.Concurrent == nil {
		return nil, nil
	}
	blk := ex.specs.Contracts["interference "+c.Concurrent.Name]
	if blk == nil {
		sfail("unknown interference block %s", c.Concurrent.Name)
	}
	return blk, c.Concurrent
}

func (ex *Exec) concEnv(fr *Frame, st *State, blk *Contract, ref *SExpr) *Env {
	top := ex.topFr
	if top == nil {
		top = fr
	}
	base := ex.baseEnv(top, st)
	env := &Env{ex: ex, cur: st, old: st, live: st, vars: map[string]Value{}, pkg: base.pkg}
	if len(blk.Params) != len(ref.Args) {
		sfail("interference %s expects %d arguments", blk.Key, len(blk.Params))
	}
	for i, p := range blk.Params {
		env.vars[p] = base.eval(ref.Args[i])
	}
	return env
}

// interfere havocs the shared locations within the rely and returns the state just before the
// step (after interference), against which the guarantee is checked.
func (ex *Exec) interfere(fr *Frame, st *State, site ssa.Instruction) *State {
	blk, ref := ex.concBlock()
	if blk == nil || ex.quiet > 0 {
		return nil
	}
	var before *State
	func() {
		defer func() {
			if r := recover(); r != nil {
				if se, ok := r.(specErr); ok {
					ex.unsupported[fmt.Sprintf("interference: %s", se.msg)] = true
					return
				}
				panic(r)
			}
		}()
		env := ex.concEnv(fr, st, blk, ref)
		pre := st.clone()
		env.old = pre
		ms := ex.resolveModifies(env, blk)
		ex.applyHavoc(st, ms)
		env.cur = st
		env.live = st
		env.assuming = true
		for _, r := range blk.Rely {
			st.assume(env.boolTerm(r.Expr))
		}
		env.assuming = false
		before = st.clone()
	}()
	return before
}

func (ex *Exec) checkGuarantee(fr *Frame, before, st *State, site ssa.Instruction) {
	if before == nil {
		return
	}
	blk, ref := ex.concBlock()
	if blk == nil {
		return
	}
	func() {
		defer func() {
			if r := recover(); r != nil {
				if se, ok := r.(specErr); ok {
					ex.unsupported[fmt.Sprintf("guarantee: %s", se.msg)] = true
					return
				}
				panic(r)
			}
		}()
		env := ex.concEnv(fr, st, blk, ref)
		env.old = before
		step := "step"
		if c, ok := site.(*ssa.Call); ok {
			if callee := c.Common().StaticCallee(); callee != nil {
				step = shortenPaths(callee.String())
			} else if b, isB := c.Common().Value.(*ssa.Builtin); isB {
				step = b.Name()
			} else if c.Common().IsInvoke() {
				step = c.Common().Method.Name()
			}
		}
		for _, g := range blk.Guarantee {
			ex.oblige(st, "guarantee@"+step, g.Label, mergeProps(g.Props, ex.safetyProps(fr)[1:]), env.boolTerm(g.Expr), site.Pos(), ex.fnKey)
		}
	}()
}
