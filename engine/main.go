package main

import (
	"flag"
	"fmt"
	"go/types"
	"os"
	"path/filepath"
	"runtime"
	"sort"
	"strings"
	"time"

	"golang.org/x/tools/go/packages"
	"golang.org/x/tools/go/ssa"
	"golang.org/x/tools/go/ssa/ssautil"
)

var (
	flagRepo    = flag.String("repo", "/repo", "repository root")
	flagSpec    = flag.String("spec", "/verif/spec", "directory with *.spec files")
	flagProp    = flag.String("prop", "", "property id to check (empty: all obligations)")
	flagFunc    = flag.String("func", "", "only functions whose key contains this substring")
	flagTier    = flag.String("tier", "quick", "quick | thorough")
	flagSeed    = flag.Int("seed", 0, "seed")
	flagOut     = flag.String("out", "", "evidence file to write")
	flagWork    = flag.String("work", "", "scratch directory for SMT files")
	flagTimeout = flag.Int("timeout", 10, "per-obligation solver timeout (s)")
	flagVerbose = flag.Bool("v", false, "verbose")
	flagDump    = flag.Bool("dump", false, "print every obligation")
	flagBaseline = flag.String("baseline", "/verif/baseline_obligations.json", "baseline file")
	flagKnown   = flag.String("known", "/verif/known_findings.json", "known findings file")
	flagNames   = flag.String("names", "/verif/baseline_names.json", "parameter / local names of every function on the baseline tree")
	flagWriteBaseline = flag.Bool("write-baseline", false, "rewrite the baseline from this run (maintainer command)")
	flagReplayDir = flag.String("replaydir", "/verif/replays", "where replay files are written")
	flagNoReplay = flag.Bool("noreplay", false, "do not run replays")
	flagReplay   = flag.String("replay", "", "re-run a stored replay scenario and exit")
)

type Loaded struct {
	prog  *ssa.Program
	pkgs  []*ssa.Package
	funcs []*ssa.Function
	byKey map[string]*ssa.Function
	pkgsByName map[string]*types.Package
	loadS float64
}

func loadRepo(repo string) (*Loaded, error) {
	t0 := time.Now()
	cfg := &packages.Config{Mode: packages.LoadAllSyntax, Dir: repo, BuildFlags: []string{"-tags=verif"}, Env: append(os.Environ(), "GOFLAGS=-mod=mod", "GOPROXY=off", "GOSUMDB=off", "GOTOOLCHAIN=local")}
	pkgs, err := packages.Load(cfg, ".", "./pkg/buffer", "./errors")
	if err != nil {
		return nil, err
	}
	for _, p := range pkgs {
		if len(p.Errors) > 0 {
			return nil, fmt.Errorf("package %s does not type-check: %v", p.PkgPath, p.Errors[0])
		}
	}
	prog, spkgs := ssautil.AllPackages(pkgs, ssa.GlobalDebug|ssa.InstantiateGenerics)
	prog.Build()
	ld := &Loaded{prog: prog, byKey: map[string]*ssa.Function{}, pkgsByName: map[string]*types.Package{}}
	for _, p := range prog.AllPackages() {
		name := p.Pkg.Name()
		path := p.Pkg.Path()
		if _, dup := ld.pkgsByName[name]; !dup || !strings.Contains(path, "/") {
			if !(name == "errors" && path != "errors") && !(name == "types" && path == "go/types") {
				ld.pkgsByName[name] = p.Pkg
			}
		}
		ld.pkgsByName[shortPkg(path)] = p.Pkg
		if path == "github.com/jeroenrinzema/psql-wire/errors" {
			ld.pkgsByName["perr"] = p.Pkg
			ld.pkgsByName["psqlerr"] = p.Pkg
		}
		if path == "github.com/jeroenrinzema/psql-wire/pkg/types" {
			ld.pkgsByName["types"] = p.Pkg
			ld.pkgsByName["ptypes"] = p.Pkg
		}
		if path == "errors" {
			ld.pkgsByName["errors"] = p.Pkg
		}
	}
	for _, p := range prog.AllPackages() {
		switch p.Pkg.Path() {
		case "github.com/jeroenrinzema/psql-wire":
			ld.pkgsByName["wire"] = p.Pkg
		case "github.com/jeroenrinzema/psql-wire/pkg/buffer":
			ld.pkgsByName["buffer"] = p.Pkg
		case "github.com/jeroenrinzema/psql-wire/codes":
			ld.pkgsByName["codes"] = p.Pkg
		case "io", "bytes", "fmt", "net", "context", "strings":
			ld.pkgsByName[p.Pkg.Path()] = p.Pkg
		}
	}
	seen := map[*ssa.Function]bool{}
	var add func(f *ssa.Function)
	add = func(f *ssa.Function) {
		if f == nil || seen[f] || len(f.Blocks) == 0 || f.Synthetic != "" {
			return
		}
		seen[f] = true
		if strings.HasSuffix(ld.prog.Fset.Position(f.Pos()).Filename, "_test.go") {
			return
		}
		ld.funcs = append(ld.funcs, f)
		ld.byKey[fnKeyOf(f)] = f
		for _, a := range f.AnonFuncs {
			add(a)
		}
	}
	for _, sp := range spkgs {
		if sp == nil {
			continue
		}
		ld.pkgs = append(ld.pkgs, sp)
		var names []string
		for n := range sp.Members {
			names = append(names, n)
		}
		sort.Strings(names)
		for _, n := range names {
			switch m := sp.Members[n].(type) {
			case *ssa.Function:
				if m.Name() != "init" {
					add(m)
				}
			case *ssa.Type:
				for _, t := range []types.Type{m.Type(), types.NewPointer(m.Type())} {
					ms := prog.MethodSets.MethodSet(t)
					for i := 0; i < ms.Len(); i++ {
						add(prog.MethodValue(ms.At(i)))
					}
				}
			}
		}
	}
	computeKeyOverrides(ld.funcs)
	if len(keyOverride) > 0 {
		ld.byKey = map[string]*ssa.Function{}
		for _, f := range ld.funcs {
			ld.byKey[fnKeyOf(f)] = f
		}
	}
	sort.Slice(ld.funcs, func(i, j int) bool { return fnKeyOf(ld.funcs[i]) < fnKeyOf(ld.funcs[j]) })
	ld.loadS = time.Since(t0).Seconds()
	return ld, nil
}

func loadSpecs(repo, specDir string) (*SpecDB, error) {
	db := newSpecDB()
	files, _ := filepath.Glob(filepath.Join(specDir, "*.spec"))
	sort.Strings(files)
	for _, f := range files {
		if err := db.loadFile(f, "", false); err != nil {
			return nil, err
		}
	}
	for _, pc := range [][2]string{{".", "wire"}, {"pkg/buffer", "buffer"}, {"errors", "perr"}} {
		f := filepath.Join(repo, pc[0], "contracts_verif.go")
		if _, err := os.Stat(f); err == nil {
			if err := db.loadFile(f, pc[1], true); err != nil {
				return nil, err
			}
		}
	}
	return db, nil
}

func newExec(ld *Loaded, db *SpecDB) *Exec {
	return &Exec{prog: ld.prog, specs: db, maxPaths: 4096, pkgsByName: ld.pkgsByName, varRefs: map[*ssa.Function]map[string][]debugRef{}, rebound: map[string]map[string][]string{}}
}

func main() {
	flag.Parse()
	if *flagReplay != "" {
		os.Exit(replayMain(*flagReplay))
	}
	t0 := time.Now()
	if !*flagWriteBaseline {
		// the baseline run defines the names; it must not be interpreted through an older record
		loadBaseNames(*flagNames)
	} else {
		baseNames = map[string]*fnNames{}
	}
	ld, err := loadRepo(*flagRepo)
	if err != nil {
		fmt.Fprintln(os.Stderr, "load error:", err)
		os.Exit(2)
	}
	db, err := loadSpecs(*flagRepo, *flagSpec)
	if err != nil {
		fmt.Fprintln(os.Stderr, "spec error:", err)
		os.Exit(2)
	}
	work := *flagWork
	if work == "" {
		work, _ = os.MkdirTemp("", "govc")
		defer os.RemoveAll(work)
	}
	if listKeys {
		for _, f := range ld.funcs {
			fmt.Println(fnKeyOf(f))
		}
		return
	}
	os.Exit(runCheck(ld, db, work, t0))
}

func numWorkers() int {
	n := runtime.NumCPU()
	if n > 16 {
		n = 16
	}
	if n < 2 {
		n = 2
	}
	return n
}

func init() {
	flag.BoolFunc("list", "list function keys", func(string) error { listKeys = true; return nil })
}

var listKeys bool
