package main

import (
	"strings"
	"fmt"
	"go/token"
	"go/types"

	"golang.org/x/tools/go/ssa"
)

type retK func(st *State, results Value)

// execFunc runs fn's body with the given arguments, invoking k for every return path.
func (ex *Exec) execFunc(fn *ssa.Function, args, bindings []Value, st *State, parent *Frame, k retK) {
	if len(fn.Blocks) == 0 {
		ex.unsupp("function %s has no body", fn.String())
	}
	fr := &Frame{fn: fn, vals: map[ssa.Value]Value{}, args: args, bindings: bindings, loops: map[*ssa.BasicBlock]*loopCtx{}}
	if parent != nil {
		fr.outerN = ex.pendingN
		ex.pendingN = nil
		fr.parent = parent
		fr.site = ex.pendingSite
		ex.pendingSite = nil
		fr.depth = parent.depth + 1
		fr.ghostPar = parent.ghostPar
		fr.callStack = append(append([]string(nil), parent.callStack...), fnKeyOf(fn))
	} else {
		fr.top = true
		fr.callStack = []string{fnKeyOf(fn)}
	}
	ex.execBlock(fr, fn.Blocks[0], st, k)
}

func (ex *Exec) execBlock(fr *Frame, b *ssa.BasicBlock, st *State, k retK) {
	li := loopsOf(fr.fn)
	// evaluate phis simultaneously
	phiVals := map[*ssa.Phi]Value{}
	nphi := 0
	for _, ins := range b.Instrs {
		phi, ok := ins.(*ssa.Phi)
		if !ok {
			if _, isDbg := ins.(*ssa.DebugRef); isDbg {
				nphi++
				continue
			}
			break
		}
		nphi++
		idx := -1
		for i, p := range b.Preds {
			if p == fr.prev {
				idx = i
			}
		}
		if idx < 0 {
			ex.unsupp("phi without matching predecessor in %s", fr.fn.Name())
		}
		phiVals[phi] = ex.val(fr, st, phi.Edges[idx])
	}
	// recount: phis are always first; DebugRefs may interleave
	if ord, isHeader := li.headers[b]; isHeader {
		if ex.loopHeader(fr, b, ord, st, phiVals, k) {
			return
		}
	} else {
		for p, v := range phiVals {
			v.T = p.Type()
			fr.vals[p] = v
		}
	}
	ex.execFrom(fr, b, 0, st, k)
}

func (ex *Exec) execFrom(fr *Frame, b *ssa.BasicBlock, start int, st *State, k retK) {
	for i := start; i < len(b.Instrs); i++ {
		ins := b.Instrs[i]
		switch ins.(type) {
		case *ssa.Return, *ssa.ChangeType, *ssa.Store, *ssa.Call:
			// a function literal that captures nothing is a plain function value
			for _, op := range ins.Operands(nil) {
				if f, ok := (*op).(*ssa.Function); ok && f.Parent() != nil {
					ex.conformClosure(fr, st, f, []ssa.Instruction{ins}, f, &Closure{Fn: f})
				}
			}
		}
		switch x := ins.(type) {
		case *ssa.Phi, *ssa.DebugRef:
			continue
		case *ssa.If:
			c := ex.val(fr, st, x.Cond).L[0]
			tb, fb := b.Succs[0], b.Succs[1]
			if c.IsTrue() {
				fr.prev = b
				ex.execBlock(fr, tb, st, k)
				return
			}
			if c.IsFalse() {
				fr.prev = b
				ex.execBlock(fr, fb, st, k)
				return
			}
			ex.paths++
			if ex.paths > ex.maxPaths {
				ex.unsupp("path limit exceeded in %s", ex.fnKey)
			}
			st2 := st.clone()
			fr2 := fr.clone()
			st.assume(c)
			st.Trace = append(st.Trace, ex.branchDesc(fr.fn, x, true))
			fr.prev = b
			ex.tryPath(func() { ex.execBlock(fr, tb, st, k) })
			st2.assume(Not(c))
			st2.Trace = append(st2.Trace, ex.branchDesc(fr.fn, x, false))
			fr2.prev = b
			ex.tryPath(func() { ex.execBlock(fr2, fb, st2, k) })
			return
		case *ssa.Jump:
			fr.prev = b
			ex.execBlock(fr, b.Succs[0], st, k)
			return
		case *ssa.Return:
			var res Value
			if len(x.Results) == 1 {
				res = ex.val(fr, st, x.Results[0])
				res.T = fr.fn.Signature.Results().At(0).Type()
			} else {
				res.T = fr.fn.Signature.Results()
				for j, r := range x.Results {
					v := ex.val(fr, st, r)
					if v.Loc != nil || v.Clo != nil {
						// keep only leaves in tuples
					}
					want := len(leavesOf(fr.fn.Signature.Results().At(j).Type()))
					if len(v.L) != want {
						ex.unsupp("tuple result %d of %s has %d leaves, want %d", j, fr.fn.Name(), len(v.L), want)
					}
					res.L = append(res.L, v.L...)
				}
			}
			if fr.top {
				st.retSite = fmt.Sprintf("b%d", b.Index)
				fr.lastRet = x
				st.topFrame = fr
			}
			k(st, res)
			return
		case *ssa.Panic:
			ex.oblige(st, "safety", "panic", ex.safetyProps(fr), tFalse, x.Pos(), fnKeyOf(fr.fn))
			return
		case *ssa.RunDefers:
			ds := fr.defers
			fr.defers = nil
			ex.runDefers(fr, ds, st, func(st *State) {
				ex.execFrom(fr.clone(), b, i+1, st, k)
			})
			return
		case *ssa.Call:
			i := i
			// goroutines of other callers may run between any two steps: the shared state moves
			// within the rely before the step, and the step itself must respect the guarantee
			before := ex.interfere(fr, st, x)
			ex.doCall(fr, x.Common(), x.Pos(), x, st, func(st *State, r Value) {
				ex.checkGuarantee(fr, before, st, x)
				fr2 := fr.clone()
				r.T = x.Type()
				fr2.vals[x] = r
				ex.execFrom(fr2, b, i+1, st, k)
			})
			return
		case *ssa.Defer:
			d := &deferRec{common: x.Common(), pos: x.Pos()}
			for _, a := range x.Common().Args {
				d.args = append(d.args, ex.val(fr, st, a))
			}
			if x.Common().IsInvoke() || x.Common().StaticCallee() == nil {
				d.fnval = ex.val(fr, st, x.Common().Value)
			} else if mc, ok := x.Common().Value.(*ssa.MakeClosure); ok {
				d.fnval = ex.val(fr, st, mc)
			}
			fr.defers = append(fr.defers, d)
		case *ssa.Go:
			ex.doSpawn(fr, st, x)
		default:
			if v, ok := ins.(ssa.Value); ok {
				r := ex.evalInstr(fr, st, ins, v)
				fr.vals[v] = r
			} else {
				ex.execEffect(fr, st, ins)
			}
		}
	}
}

func (ex *Exec) tryPath(f func()) {
	defer func() {
		if r := recover(); r != nil {
			if _, ok := r.(abortPath); ok {
				return
			}
			if se, ok := r.(specErr); ok {
				ex.unsupported["spec: "+se.msg] = true
				return
			}
			panic(r)
		}
	}()
	f()
}

func (ex *Exec) branchDesc(fn *ssa.Function, x *ssa.If, taken bool) string {
	p := ex.prog.Fset.Position(x.Cond.Pos())
	return fmt.Sprintf("%s:%d=%v", ex.operandName(fn, x.Cond), p.Line, taken)
}

func (ex *Exec) safetyProps(fr *Frame) []string {
	ps := []string{"C04"}
	c := ex.specs.Contracts[fnKeyOf(fr.fn)]
	if c == nil && !fr.top {
		c = ex.con // a helper without a contract is part of the function it is inlined into
	}
	if c != nil {
		for _, p := range c.Props {
			if p != "C04" {
				ps = append(ps, p)
			}
		}
	}
	return ps
}

func (ex *Exec) safety(fr *Frame, st *State, ins ssa.Instruction, role string, operand ssa.Value, goal *Term) {
	if goal.IsTrue() {
		return
	}
	label := ex.safetyLabel(fr.fn, ins, role, operand)
	ex.oblige(st, "safety", label, ex.safetyProps(fr), goal, ins.Pos(), fnKeyOf(fr.fn))
	st.assume(goal)
}

func (ex *Exec) execEffect(fr *Frame, st *State, ins ssa.Instruction) {
	switch x := ins.(type) {
	case *ssa.Store:
		addr := ex.val(fr, st, x.Addr)
		v := ex.val(fr, st, x.Val)
		if addr.Loc == nil {
			ex.safety(fr, st, ins, "nil", x.Addr, Ne(addr.L[0], Int(0)))
		}
		loc := ex.locOf(st, addr, fr, x.Pos(), "store")
		if v.Clo != nil && loc.Kind == "cell" {
			// keep closure knowledge in cells
			vv := v
			vv.T = loc.T
			st.Cells[loc.Cell] = vv
			st.DirtyCells[loc.Cell] = true
			return
		}
		if v.Loc != nil {
			if loc.Kind == "cell" {
				vv := v
				st.Cells[loc.Cell] = vv
				st.DirtyCells[loc.Cell] = true
				return
			}
			ex.unsupp("interior pointer escapes to the heap in %s", fr.fn.Name())
		}
		if v.Clo != nil {
			st.Closures[v.L[0].String()] = v.Clo
		}
		ex.store(st, loc, Value{T: loc.T, L: v.L})
	case *ssa.MapUpdate:
		m := ex.val(fr, st, x.Map)
		kv := ex.val(fr, st, x.Key)
		vv := ex.val(fr, st, x.Value)
		ex.safety(fr, st, ins, "nilmap", x.Map, Ne(m.L[0], Int(0)))
		if mi := ex.specs.MapInvs[typeKey(m.T)]; mi != nil {
			env := ex.baseEnv(fr, st)
			env.vars[mi.Var] = Value{T: m.T.Underlying().(*types.Map).Elem(), L: vv.L}
			if g := tryBool(env, mi.Expr); g != nil {
				ex.oblige(st, "mapinv@"+typeKey(m.T), ex.safetyLabel(fr.fn, ins, "nilmap", x.Map), ex.safetyProps(fr)[1:], g, x.Pos(), fnKeyOf(fr.fn))
				st.assume(g)
			}
		}
		ex.mapStore(st, m, kv.L[0], vv)
	default:
		ex.unsupp("instruction %T in %s", ins, fr.fn.Name())
	}
}

func (ex *Exec) evalInstr(fr *Frame, st *State, ins ssa.Instruction, v ssa.Value) Value {
	switch x := ins.(type) {
	case *ssa.Alloc:
		t := deref(x.Type())
		switch u := t.Underlying().(type) {
		case *types.Struct:
			if !isOpaque(t) {
				obj := ex.newObj(st)
				st.storeObj(obj, t, "", zeroValue(t))
				return Value{T: x.Type(), L: []*Term{obj}}
			}
			return Value{T: x.Type(), L: []*Term{ex.newObj(st)}}
		case *types.Array:
			obj := ex.newObj(st)
			n := u.Len()
			zero := zeroValue(u.Elem())
			leaves := leavesOf(u.Elem())
			st.regionWrite(obj, Int(0), Int(n), u.Elem(), func(l Leaf, idx *Term) *Term {
				for i, ll := range leaves {
					if ll.Path == l.Path {
						return zero.L[i]
					}
				}
				return Int(0)
			})
			return Value{T: x.Type(), L: []*Term{obj}}
		}
		ex.fresh++
		cell := &Cell{Name: fmt.Sprintf("%s!%d", x.Comment, ex.fresh), id: ex.fresh}
		st.Cells[cell] = zeroValue(t)
		return Value{T: x.Type(), Loc: &Loc{Kind: "cell", Cell: cell, T: t}}
	case *ssa.FieldAddr:
		base := ex.val(fr, st, x.X)
		stt := deref(x.X.Type()).Underlying().(*types.Struct)
		f := stt.Field(x.Field)
		if base.Loc != nil {
			switch base.Loc.Kind {
			case "obj":
				// nested value struct
				return Value{T: x.Type(), Loc: &Loc{Kind: "obj", Obj: base.Loc.Obj, Struct: base.Loc.Struct, Path: base.Loc.Path + "." + f.Name(), T: f.Type()}}
			case "whole":
				return ex.fieldLoc(x.Type(), base.Loc.Obj, deref(x.X.Type()), stt, x.Field)
			case "global":
				// field of a global struct variable: treat global as object with symbolic address
				addr := Var("g."+base.Loc.Glob+".addr", SInt)
				return ex.fieldLoc(x.Type(), addr, deref(x.X.Type()), stt, x.Field)
			case "elem":
				// field of a struct stored in a slice / array element
				return Value{T: x.Type(), Loc: &Loc{Kind: "elemfield", Obj: base.Loc.Obj, Idx: base.Loc.Idx, Struct: base.Loc.T, Path: "." + f.Name(), T: f.Type()}}
			case "elemfield":
				return Value{T: x.Type(), Loc: &Loc{Kind: "elemfield", Obj: base.Loc.Obj, Idx: base.Loc.Idx, Struct: base.Loc.Struct, Path: base.Loc.Path + "." + f.Name(), T: f.Type()}}
			}
			ex.unsupp("field address of location kind %s", base.Loc.Kind)
		}
		ex.safety(fr, st, ins, "nil", x.X, Ne(base.L[0], Int(0)))
		return ex.fieldLoc(x.Type(), base.L[0], deref(x.X.Type()), stt, x.Field)
	case *ssa.Field:
		base := ex.val(fr, st, x.X)
		return base.field(x.Field)
	case *ssa.IndexAddr:
		base := ex.val(fr, st, x.X)
		idx := ex.val(fr, st, x.Index).L[0]
		switch u := x.X.Type().Underlying().(type) {
		case *types.Slice:
			ex.safety(fr, st, ins, "index", x.X, And(Le(Int(0), idx), Lt(idx, base.Len())))
			return Value{T: x.Type(), Loc: &Loc{Kind: "elem", Obj: base.Arr(), Idx: Add(base.Off(), idx), T: u.Elem()}}
		case *types.Pointer:
			at := u.Elem().Underlying().(*types.Array)
			arr := ex.arrayID(st, base)
			ex.safety(fr, st, ins, "index", x.X, And(Le(Int(0), idx), Lt(idx, Int(at.Len()))))
			return Value{T: x.Type(), Loc: &Loc{Kind: "elem", Obj: arr, Idx: idx, T: at.Elem()}}
		}
		ex.unsupp("IndexAddr on %s", x.X.Type())
	case *ssa.UnOp:
		return ex.evalUnOp(fr, st, x)
	case *ssa.BinOp:
		return ex.evalBinOp(fr, st, x)
	case *ssa.Convert:
		return ex.evalConvert(fr, st, x)
	case *ssa.ChangeType:
		v := ex.val(fr, st, x.X)
		v.T = x.Type()
		return v
	case *ssa.ChangeInterface:
		v := ex.val(fr, st, x.X)
		v.T = x.Type()
		return v
	case *ssa.MakeInterface:
		return ex.makeInterface(st, ex.val(fr, st, x.X), x.X.Type(), x.Type())
	case *ssa.TypeAssert:
		return ex.typeAssert(fr, st, x)
	case *ssa.Extract:
		tup := ex.val(fr, st, x.Tuple)
		tt := x.Tuple.Type().(*types.Tuple)
		off := 0
		for j := 0; j < x.Index; j++ {
			off += len(leavesOf(tt.At(j).Type()))
		}
		n := len(leavesOf(tt.At(x.Index).Type()))
		r := Value{T: x.Type(), L: tup.L[off : off+n]}
		if tup.Tab && x.Index == 0 {
			r.Tab = true
		}
		if n == 1 {
			if c, ok := st.Closures[r.L[0].String()]; ok {
				r.Clo = c
			}
		}
		return r
	case *ssa.Slice:
		return ex.evalSlice(fr, st, x)
	case *ssa.MakeSlice:
		ln := ex.val(fr, st, x.Len).L[0]
		cp := ex.val(fr, st, x.Cap).L[0]
		ex.safety(fr, st, ins, "make", x.Len, And(Le(Int(0), ln), Le(ln, cp)))
		elem := x.Type().Underlying().(*types.Slice).Elem()
		return ex.makeSlice(st, x.Type(), elem, ln, cp)
	case *ssa.MakeMap:
		id := ex.newObj(st)
		mt := x.Type()
		k := typeKey(mt)
		st.Heap["mapsize:"+k] = Store(st.heapArr("mapsize:"+k, SInt), id, Int(0))
		st.Heap["mapdom:"+k] = Store(st.heapArrS("mapdom:"+k, SArr2B), id, ConstArr(SArrB, tFalse))
		st.Dirty["H:mapdom:"+k] = true
		st.Dirty["H:mapsize:"+k] = true
		return Value{T: mt, L: []*Term{id}}
	case *ssa.MakeChan:
		return Value{T: x.Type(), L: []*Term{ex.newObj(st)}}
	case *ssa.MakeClosure:
		fn := x.Fn.(*ssa.Function)
		c := &Closure{Fn: fn}
		for _, b := range x.Bindings {
			c.Bindings = append(c.Bindings, ex.val(fr, st, b))
		}
		ex.checkClosurePre(fr, st, x, fn, c)
		if x.Referrers() != nil {
			ex.conformClosure(fr, st, x, *x.Referrers(), fn, c)
		}
		id := ex.newObj(st)
		st.Closures[id.String()] = c
		st.assume(Eq(UF("closure.fn", SInt, id), ex.funcID(fn)))
		for i, b := range c.Bindings {
			bv := b
			if b.Loc != nil && b.Loc.Kind == "cell" {
				if cv, ok := st.Cells[b.Loc.Cell]; ok {
					bv = cv
				}
			}
			if len(bv.L) == 1 && bv.Loc == nil {
				st.assume(Eq(UF("closure.fv."+fn.FreeVars[i].Name(), SInt, id), toInt(bv.L[0])))
				for old, news := range ex.aliasesOf(fn) {
					for _, nn := range news {
						if nn == fn.FreeVars[i].Name() {
							st.assume(Eq(UF("closure.fv."+old, SInt, id), toInt(bv.L[0])))
						}
					}
				}
			}
		}
		return Value{T: x.Type(), L: []*Term{id}, Clo: c}
	case *ssa.Lookup:
		base := ex.val(fr, st, x.X)
		key := ex.val(fr, st, x.Index)
		if _, isMap := x.X.Type().Underlying().(*types.Map); isMap {
			if es := ex.tableOf(x.X); es != nil {
				// lookup in a dispatch table of the package: a case distinction over its keys
				fv, ok := ex.tableLookup(es, key.L[0])
				elemT := x.X.Type().Underlying().(*types.Map).Elem()
				if x.CommaOk {
					return Value{T: x.Type(), L: []*Term{fv, ok}, Tab: true}
				}
				return Value{T: elemT, L: []*Term{fv}, Tab: true}
			}
			v := ex.mapLoad(st, base, key.L[0])
			if x.CommaOk {
				ok := ex.mapHas(st, base, key.L[0])
				r := Value{T: x.Type(), L: append(append([]*Term(nil), v.L...), ok)}
				return r
			}
			return v
		}
		// string index
		ex.safety(fr, st, ins, "index", x.X, And(Le(Int(0), key.L[0]), Lt(key.L[0], UF("slen", SInt, base.L[0]))))
		b := UF("sbyte", SInt, base.L[0], key.L[0])
		st.assume(InRange(b, 8, false))
		return Value{T: x.Type(), L: []*Term{b}}
	case *ssa.Range:
		m := ex.val(fr, st, x.X)
		if _, isMap := x.X.Type().Underlying().(*types.Map); !isMap {
			ex.unsupp("range over %s", x.X.Type())
		}
		ex.fresh++
		cell := &Cell{Name: fmt.Sprintf("iter!%d", ex.fresh), id: ex.fresh}
		st.Cells[cell] = Value{T: tInt, L: []*Term{Int(0)}}
		ex.iterMaps[cell] = m
		return Value{T: x.Type(), Loc: &Loc{Kind: "cell", Cell: cell, T: tInt}}
	case *ssa.Next:
		it := ex.val(fr, st, x.Iter)
		if it.Loc == nil || it.Loc.Kind != "cell" {
			ex.unsupp("Next on unknown iterator")
		}
		m := ex.iterMaps[it.Loc.Cell]
		mt := m.T.Underlying().(*types.Map)
		cnt := st.Cells[it.Loc.Cell].L[0]
		size := Select(st.heapArr("mapsize:"+typeKey(m.T), SInt), m.L[0])
		ok := ex.freshVar("next.ok", SBool)
		kv := ex.freshValue(st, mt.Key(), "next.k")
		st.assume(Implies(ok, And(Lt(cnt, size), ex.mapHas(st, m, kv.L[0]))))
		st.assume(Implies(Not(ok), Eq(cnt, size)))
		st.assume(And(Le(Int(0), cnt), Le(cnt, size)))
		vv := ex.mapLoad(st, m, kv.L[0])
		st.Cells[it.Loc.Cell] = Value{T: tInt, L: []*Term{Ite(ok, Add(cnt, Int(1)), cnt)}}
		st.DirtyCells[it.Loc.Cell] = true
		r := Value{T: x.Type(), L: []*Term{ok}}
		r.L = append(r.L, kv.L...)
		r.L = append(r.L, vv.L...)
		return r
	}
	ex.unsupp("instruction %T in %s", ins, fr.fn.Name())
	return Value{}
}

func toInt(t *Term) *Term {
	if t.Sort == SBool {
		return Ite(t, Int(1), Int(0))
	}
	return t
}

func (ex *Exec) fieldLoc(ptrT types.Type, obj *Term, structT types.Type, stt *types.Struct, ix int) Value {
	f := stt.Field(ix)
	if isAddrOnly(f.Type()) {
		return Value{T: ptrT, L: []*Term{derivedAddr(obj, "", stt, ix)}}
	}
	return Value{T: ptrT, Loc: &Loc{Kind: "obj", Obj: obj, Struct: structT, Path: "." + f.Name(), T: f.Type()}}
}

// arrayID: array identity behind a pointer-to-array value
func (ex *Exec) arrayID(st *State, p Value) *Term {
	if p.Loc != nil {
		ex.unsupp("pointer to array held in location kind %s", p.Loc.Kind)
	}
	return p.L[0]
}

func (ex *Exec) makeSlice(st *State, t types.Type, elem types.Type, ln, cp *Term) Value {
	arr := ex.newObj(st)
	zero := zeroValue(elem)
	leaves := leavesOf(elem)
	st.regionWrite(arr, Int(0), cp, elem, func(l Leaf, idx *Term) *Term {
		for i, ll := range leaves {
			if ll.Path == l.Path {
				return zero.L[i]
			}
		}
		return Int(0)
	})
	// allocation ghosts (bytes requested by this single make); allocations of a
	// compile-time constant size of at most 4096 bytes (the reader's own allocation granule)
	// are not tracked: the ghosts bound what client-controlled lengths can make the server allocate
	if cp.IsInt() && cp.Int.IsInt64() && cp.Int.Int64()*sizeofElem(elem) <= 4096 {
		return sliceVal(t, arr, Int(0), ln, cp)
	}
	sz := Mul(cp, Int(sizeofElem(elem)))
	st.Ghost["maxalloc"] = Max(st.ghost("maxalloc", SInt), sz)
	st.Ghost["nalloc"] = Add(st.ghost("nalloc", SInt), Int(1))
	st.Dirty["G:maxalloc"] = true
	st.Dirty["G:nalloc"] = true
	return sliceVal(t, arr, Int(0), ln, cp)
}

func sizeofElem(t types.Type) int64 {
	sz := types.SizesFor("gc", "amd64").Sizeof(t)
	if sz <= 0 {
		return 1
	}
	return sz
}

func (ex *Exec) evalUnOp(fr *Frame, st *State, x *ssa.UnOp) Value {
	switch x.Op {
	case token.MUL:
		p := ex.val(fr, st, x.X)
		if p.Loc == nil {
			ex.safety(fr, st, x, "nil", x.X, Ne(p.L[0], Int(0)))
		}
		loc := ex.locOf(st, p, fr, x.Pos(), "load")
		if loc.Kind == "cell" {
			if v, ok := st.Cells[loc.Cell]; ok {
				v.T = x.Type()
				return v
			}
		}
		v := ex.load(st, loc)
		v.T = x.Type()
		ex.assumeLoaded(st, v)
		if loc.Kind == "elem" {
			ex.applyEach(st, loc, v)
		}
		if len(v.L) == 1 {
			if c, ok := st.Closures[v.L[0].String()]; ok {
				v.Clo = c
			}
		}
		return v
	case token.NOT:
		return Value{T: x.Type(), L: []*Term{Not(ex.val(fr, st, x.X).L[0])}}
	case token.SUB:
		v := ex.val(fr, st, x.X).L[0]
		bits, signed, _ := intBits(x.Type())
		return Value{T: x.Type(), L: []*Term{Wrap1(Neg(v), bits, signed)}}
	case token.ARROW:
		ch := ex.val(fr, st, x.X)
		_ = ch
		return ex.freshValue(st, x.Type(), "recv")
	}
	ex.unsupp("unary operator %s", x.Op)
	return Value{}
}

// assumeLoaded: language-level invariants of a value read from memory
func (ex *Exec) assumeLoaded(st *State, v Value) {
	simple := true
	for _, t := range v.L {
		if t.Op != "int" && t.Op != "true" && t.Op != "false" {
			simple = false
		}
	}
	if simple {
		return
	}
	ex.assumeWF(st, v)
}

func (ex *Exec) evalBinOp(fr *Frame, st *State, x *ssa.BinOp) Value {
	a := ex.val(fr, st, x.X)
	b := ex.val(fr, st, x.Y)
	rt := x.Type()
	switch x.Op {
	case token.EQL, token.NEQ:
		var t *Term
		switch u := x.X.Type().Underlying().(type) {
		case *types.Slice, *types.Map, *types.Pointer, *types.Signature, *types.Chan:
			_ = u
			if a.Loc != nil || b.Loc != nil {
				ex.unsupp("comparison of interior pointers")
			}
			t = Eq(a.L[0], b.L[0])
		case *types.Interface:
			t = ex.ifaceEq(st, a, b, x.Y.Type())
		default:
			if len(a.L) != len(b.L) {
				ex.unsupp("comparison shape mismatch")
			}
			var cs []*Term
			for i := range a.L {
				cs = append(cs, Eq(a.L[i], b.L[i]))
			}
			t = And(cs...)
		}
		if x.Op == token.NEQ {
			t = Not(t)
		}
		return Value{T: rt, L: []*Term{t}}
	}
	if bt, ok := x.X.Type().Underlying().(*types.Basic); ok && bt.Info()&types.IsString != 0 {
		switch x.Op {
		case token.ADD:
			id := ex.freshVar("strcat", SInt)
			st.assume(Eq(UF("slen", SInt, id), Add(UF("slen", SInt, a.L[0]), UF("slen", SInt, b.L[0]))))
			st.assume(Eq(UF("nulfree", SBool, id), And(UF("nulfree", SBool, a.L[0]), UF("nulfree", SBool, b.L[0]))))
			return Value{T: rt, L: []*Term{id}}
		}
		ex.unsupp("string operator %s", x.Op)
	}
	av, bv := a.L[0], b.L[0]
	switch x.Op {
	case token.LSS:
		return Value{T: rt, L: []*Term{Lt(av, bv)}}
	case token.LEQ:
		return Value{T: rt, L: []*Term{Le(av, bv)}}
	case token.GTR:
		return Value{T: rt, L: []*Term{Gt(av, bv)}}
	case token.GEQ:
		return Value{T: rt, L: []*Term{Ge(av, bv)}}
	}
	bits, signed, ok := intBits(rt)
	if !ok {
		ex.unsupp("binary operator %s on %s", x.Op, rt)
	}
	switch x.Op {
	case token.ADD:
		return Value{T: rt, L: []*Term{Wrap1(Add(av, bv), bits, signed)}}
	case token.SUB:
		return Value{T: rt, L: []*Term{Wrap1(Sub(av, bv), bits, signed)}}
	case token.MUL:
		return Value{T: rt, L: []*Term{Wrap(Mul(av, bv), bits, signed)}}
	case token.QUO, token.REM:
		ex.safety(fr, st, x, "div", x.Y, Ne(bv, Int(0)))
		// Go truncates toward zero; SMT div is Euclidean.
		q := ex.freshVar("quo", SInt)
		r := ex.freshVar("rem", SInt)
		absb := Ite(Ge(bv, Int(0)), bv, Neg(bv))
		st.assume(Eq(av, Add(Mul(q, bv), r)))
		st.assume(Implies(Ge(av, Int(0)), And(Le(Int(0), r), Lt(r, absb))))
		st.assume(Implies(Lt(av, Int(0)), And(Lt(Neg(absb), r), Le(r, Int(0)))))
		if x.Op == token.QUO {
			return Value{T: rt, L: []*Term{Wrap(q, bits, signed)}}
		}
		return Value{T: rt, L: []*Term{r}}
	}
	// bit operations: uninterpreted (sound: result only range-constrained)
	r := ex.freshVar("bitop", SInt)
	st.assume(InRange(r, bits, signed))
	ex.unsupported[fmt.Sprintf("bit operator %s modelled as unconstrained in %s", x.Op, fr.fn.Name())] = true
	return Value{T: rt, L: []*Term{r}}
}

// ifaceEq compares two interface values; comparing against a non-interface operand was lowered by SSA via MakeInterface.
func (ex *Exec) ifaceEq(st *State, a, b Value, bt types.Type) *Term {
	if len(a.L) != 2 || len(b.L) != 2 {
		ex.unsupp("interface comparison shape")
	}
	return And(Eq(a.L[0], b.L[0]), Eq(a.L[1], b.L[1]))
}

func (ex *Exec) evalConvert(fr *Frame, st *State, x *ssa.Convert) Value {
	v := ex.val(fr, st, x.X)
	from, to := x.X.Type(), x.Type()
	fb, fok := from.Underlying().(*types.Basic)
	tb, tok := to.Underlying().(*types.Basic)
	// unsafe pointer dance (GetString)
	if tok && tb.Kind() == types.UnsafePointer {
		return Value{T: to, L: v.L, Loc: v.Loc}
	}
	if fok && fb.Kind() == types.UnsafePointer {
		if pt, ok := to.Underlying().(*types.Pointer); ok && v.Loc != nil && v.Loc.Kind == "cell" {
			if eb, ok := pt.Elem().Underlying().(*types.Basic); ok && eb.Info()&types.IsString != 0 {
				if _, isSlice := v.Loc.T.Underlying().(*types.Slice); isSlice {
					return Value{T: to, Loc: &Loc{Kind: "strview", Cell: v.Loc.Cell, T: pt.Elem()}}
				}
			}
		}
		ex.unsupp("unsupported use of unsafe.Pointer in %s", fr.fn.Name())
	}
	if tbits, tsigned, ok := intBits(to); ok {
		if _, _, ok2 := intBits(from); ok2 {
			fbits, fsigned, _ := intBits(from)
			// widening within range needs no wrap
			flo, fhi := intRange(fbits, fsigned)
			tlo, thi := intRange(tbits, tsigned)
			if flo.Cmp(tlo) >= 0 && fhi.Cmp(thi) <= 0 {
				return Value{T: to, L: v.L}
			}
			return Value{T: to, L: []*Term{Wrap(v.L[0], tbits, tsigned)}}
		}
	}
	if tok && tb.Info()&types.IsString != 0 {
		if _, isSlice := from.Underlying().(*types.Slice); isSlice {
			id := ex.freshVar("str", SInt)
			st.assume(Eq(UF("slen", SInt, id), v.Len()))
			st.assume(Eq(UF("nulfree", SBool, id), UF("nulfree_region", SBool, v.Arr(), v.Off(), v.Len())))
			return Value{T: to, L: []*Term{id}}
		}
		if _, _, isInt := intBits(from); isInt {
			id := ex.freshVar("str", SInt)
			st.assume(Le(Int(0), UF("slen", SInt, id)))
			st.assume(Eq(UF("nulfree", SBool, id), Ne(v.L[0], Int(0))))
			return Value{T: to, L: []*Term{id}}
		}
		if fok && fb.Info()&types.IsString != 0 {
			return Value{T: to, L: v.L}
		}
	}
	if _, isSlice := to.Underlying().(*types.Slice); isSlice && fok && fb.Info()&types.IsString != 0 {
		n := UF("slen", SInt, v.L[0])
		arr := ex.newObj(st)
		ex.fresh++
		name := fmt.Sprintf("strbytes!%d", ex.fresh)
		sid := v.L[0]
		st.regionWrite(arr, Int(0), n, tByte, func(l Leaf, idx *Term) *Term { _ = name; return UF("sbyte", SInt, sid, idx) })
		return sliceVal(to, arr, Int(0), n, n)
	}
	if fok && tok && fb.Info()&types.IsString != 0 && tb.Info()&types.IsString != 0 {
		return Value{T: to, L: v.L}
	}
	ex.unsupp("conversion %s -> %s", from, to)
	return Value{}
}

func (ex *Exec) evalSlice(fr *Frame, st *State, x *ssa.Slice) Value {
	base := ex.val(fr, st, x.X)
	var lo, hi, mx *Term
	if x.Low != nil {
		lo = ex.val(fr, st, x.Low).L[0]
	}
	if x.High != nil {
		hi = ex.val(fr, st, x.High).L[0]
	}
	if x.Max != nil {
		mx = ex.val(fr, st, x.Max).L[0]
	}
	switch u := x.X.Type().Underlying().(type) {
	case *types.Slice:
		if lo == nil {
			lo = Int(0)
		}
		if hi == nil {
			hi = base.Len()
		}
		cp := base.Cap()
		goal := And(Le(Int(0), lo), Le(lo, hi), Le(hi, cp))
		if mx != nil {
			goal = And(Le(Int(0), lo), Le(lo, hi), Le(hi, mx), Le(mx, cp))
			cp = mx
		}
		ex.safety(fr, st, x, "slice", x.X, goal)
		// slicing a nil slice yields nil (only 0:0 possible)
		return sliceVal(x.Type(), base.Arr(), Add(base.Off(), lo), Sub(hi, lo), Sub(cp, lo))
	case *types.Pointer:
		at := u.Elem().Underlying().(*types.Array)
		n := Int(at.Len())
		if lo == nil {
			lo = Int(0)
		}
		if hi == nil {
			hi = n
		}
		if base.Loc == nil {
			ex.safety(fr, st, x, "nil", x.X, Ne(base.L[0], Int(0)))
		}
		ex.safety(fr, st, x, "slice", x.X, And(Le(Int(0), lo), Le(lo, hi), Le(hi, n)))
		arr := ex.arrayID(st, base)
		return sliceVal(x.Type(), arr, lo, Sub(hi, lo), Sub(n, lo))
	case *types.Basic:
		if u.Info()&types.IsString != 0 {
			id := ex.freshVar("substr", SInt)
			if lo == nil {
				lo = Int(0)
			}
			if hi == nil {
				hi = UF("slen", SInt, base.L[0])
			}
			ex.safety(fr, st, x, "slice", x.X, And(Le(Int(0), lo), Le(lo, hi), Le(hi, UF("slen", SInt, base.L[0]))))
			st.assume(Eq(UF("slen", SInt, id), Sub(hi, lo)))
			st.assume(Implies(UF("nulfree", SBool, base.L[0]), UF("nulfree", SBool, id)))
			return Value{T: x.Type(), L: []*Term{id}}
		}
	}
	ex.unsupp("slice of %s", x.X.Type())
	return Value{}
}

func (ex *Exec) makeInterface(st *State, v Value, from, to types.Type) Value {
	tag := Int(int64(typeTag(from)))
	var payload *Term
	ls := leavesOf(from)
	switch {
	case len(ls) == 1 && v.Loc == nil:
		payload = toInt(v.L[0])
	case v.Loc != nil:
		ex.unsupp("interior pointer boxed into interface")
	default:
		// box: fresh pseudo-object holding the leaves
		box := ex.newObj(st)
		for i, l := range ls {
			n := "box:" + typeKey(from) + l.Path
			st.Heap[n] = Store(st.heapArr(n, l.Sort), box, v.L[i])
		}
		payload = box
	}
	r := Value{T: to, L: []*Term{tag, payload}}
	if v.Clo != nil {
		st.Closures[payload.String()] = v.Clo
	}
	return r
}

func (ex *Exec) unbox(st *State, payload *Term, t types.Type) Value {
	ls := leavesOf(t)
	if len(ls) == 1 {
		x := payload
		if ls[0].Sort == SBool {
			x = Ne(payload, Int(0))
		}
		return Value{T: t, L: []*Term{x}}
	}
	v := Value{T: t, L: make([]*Term, len(ls))}
	for i, l := range ls {
		v.L[i] = Select(st.heapArr("box:"+typeKey(t)+l.Path, l.Sort), payload)
	}
	return v
}

func (ex *Exec) typeAssert(fr *Frame, st *State, x *ssa.TypeAssert) Value {
	v := ex.val(fr, st, x.X)
	var ok *Term
	var res Value
	if _, isIface := x.AssertedType.Underlying().(*types.Interface); isIface {
		ex.implementsFacts(st, x.AssertedType)
		ok = And(Ne(v.L[0], Int(0)), UF("implements."+typeKey(x.AssertedType), SBool, v.L[0]))
		res = Value{T: x.AssertedType, L: v.L}
	} else {
		ok = Eq(v.L[0], Int(int64(typeTag(x.AssertedType))))
		res = ex.unbox(st, v.L[1], x.AssertedType)
		ex.assumeWFIf(st, ok, res)
	}
	if !x.CommaOk {
		ex.safety(fr, st, x, "assert", x.X, ok)
		return res
	}
	zero := zeroValue(x.AssertedType)
	r := Value{T: x.Type()}
	for i := range res.L {
		r.L = append(r.L, Ite(ok, res.L[i], zero.L[i]))
	}
	r.L = append(r.L, ok)
	return r
}

// implementsFacts: for the named types declared in the repository packages, whether T or *T
// implements the asserted interface is decided by the type checker's method sets.
func (ex *Exec) implementsFacts(st *State, asserted types.Type) {
	iface, ok := asserted.Underlying().(*types.Interface)
	if !ok {
		return
	}
	key := "implements." + typeKey(asserted)
	for _, p := range ex.prog.AllPackages() {
		path := p.Pkg.Path()
		if !strings.HasPrefix(path, "github.com/jeroenrinzema/psql-wire") {
			continue
		}
		scope := p.Pkg.Scope()
		for _, name := range scope.Names() {
			tn, isT := scope.Lookup(name).(*types.TypeName)
			if !isT || tn.IsAlias() {
				continue
			}
			if _, isI := tn.Type().Underlying().(*types.Interface); isI {
				continue
			}
			if n, isN := tn.Type().(*types.Named); isN && n.TypeParams().Len() > 0 {
				continue
			}
			for _, c := range []types.Type{tn.Type(), types.NewPointer(tn.Type())} {
				f := UF(key, SBool, Int(int64(typeTag(c))))
				if types.Implements(c, iface) {
					st.assume(f)
				} else {
					st.assume(Not(f))
				}
			}
		}
	}
}

func (ex *Exec) assumeWFIf(st *State, cond *Term, v Value) {
	tmp := &State{Alloc: st.Alloc}
	ex.assumeWF(tmp, v)
	for _, a := range tmp.PC {
		st.assume(Implies(cond, a))
	}
}

// ---------- maps ----------

func (ex *Exec) mapHas(st *State, m Value, k *Term) *Term {
	dom := Select(st.heapArrS("mapdom:"+typeKey(m.T), SArr2B), m.L[0])
	return And(Ne(m.L[0], Int(0)), Select(dom, k))
}

func (ex *Exec) mapLoad(st *State, m Value, k *Term) Value {
	v := ex.mapLoadRaw(st, m, k)
	if mi := ex.specs.MapInvs[typeKey(m.T)]; mi != nil && !ex.inTypeInv {
		ex.inTypeInv = true
		env := &Env{ex: ex, cur: st, old: st, live: st, vars: map[string]Value{mi.Var: v}, pkg: pkgOf(ex.fn)}
		func() {
			defer func() {
				ex.inTypeInv = false
				if r := recover(); r != nil {
					if _, ok := r.(specErr); ok {
						return
					}
					panic(r)
				}
			}()
			st.assume(Implies(ex.mapHas(st, m, k), env.boolTerm(mi.Expr)))
		}()
	}
	return v
}

func (ex *Exec) mapLoadRaw(st *State, m Value, k *Term) Value {
	mt := m.T.Underlying().(*types.Map)
	ls := leavesOf(mt.Elem())
	zero := zeroValue(mt.Elem())
	has := ex.mapHas(st, m, k)
	v := Value{T: mt.Elem(), L: make([]*Term, len(ls))}
	for i, l := range ls {
		as := SArr2I
		if l.Sort == SBool {
			as = SArr2B
		}
		arr := Select(st.heapArrS("mapval:"+typeKey(m.T)+l.Path, as), m.L[0])
		v.L[i] = Ite(has, Select(arr, k), zero.L[i])
	}
	return v
}

func (ex *Exec) mapStore(st *State, m Value, k *Term, v Value) {
	mt := m.T.Underlying().(*types.Map)
	tk := typeKey(m.T)
	domAll := st.heapArrS("mapdom:"+tk, SArr2B)
	dom := Select(domAll, m.L[0])
	had := Select(dom, k)
	st.Heap["mapdom:"+tk] = Store(domAll, m.L[0], Store(dom, k, tTrue))
	st.Dirty["H:mapdom:"+tk] = true
	sz := st.heapArr("mapsize:"+tk, SInt)
	st.Heap["mapsize:"+tk] = Store(sz, m.L[0], Add(Select(sz, m.L[0]), Ite(had, Int(0), Int(1))))
	st.Dirty["H:mapsize:"+tk] = true
	for i, l := range leavesOf(mt.Elem()) {
		as := SArr2I
		if l.Sort == SBool {
			as = SArr2B
		}
		n := "mapval:" + tk + l.Path
		all := st.heapArrS(n, as)
		st.Heap[n] = Store(all, m.L[0], Store(Select(all, m.L[0]), k, v.L[i]))
		st.Dirty["H:"+n] = true
	}
}

// applyEach instantiates the slice element invariants known on this path at a loaded element.
func (ex *Exec) applyEach(st *State, loc *Loc, v Value) {
	k := typeKey(loc.T)
	for _, f := range st.Each {
		if f.ElemKey != k {
			continue
		}
		in := And(Eq(loc.Obj, f.Arr), Le(f.Off, loc.Idx), Lt(loc.Idx, Add(f.Off, f.Len)))
		if in.IsFalse() {
			continue
		}
		env := f.Env.with(map[string]Value{f.Var: v})
		env.cur = st
		env.live = st
		var p *Term
		func() {
			defer func() {
				if r := recover(); r != nil {
					if _, ok := r.(specErr); ok {
						p = nil
						return
					}
					panic(r)
				}
			}()
			p = env.boolTerm(f.Pred)
		}()
		if p != nil {
			st.assume(Implies(And(f.Guard, in), p))
		}
	}
}

// checkClosurePre: preconditions of a closure's contract that speak only about captured
// variables are established where the closure is created.
func (ex *Exec) checkClosurePre(fr *Frame, st *State, site *ssa.MakeClosure, fn *ssa.Function, c *Closure) {
	con := ex.specs.Contracts[fnKeyOf(fn)]
	if con == nil || ex.recording != nil {
		return
	}
	env := &Env{ex: ex, cur: st, old: st, live: st, vars: map[string]Value{}, pkg: pkgOf(fn)}
	for i, fv := range fn.FreeVars {
		b := c.Bindings[i]
		if b.Loc != nil && b.Loc.Kind == "cell" {
			if cv, ok := st.Cells[b.Loc.Cell]; ok {
				env.vars[fv.Name()] = cv
				continue
			}
		}
		env.vars[fv.Name()] = b
	}
	for _, r := range con.Requires {
		var g *Term
		func() {
			defer func() {
				if rec := recover(); rec != nil {
					if _, ok := rec.(specErr); ok {
						g = nil
						return
					}
					panic(rec)
				}
			}()
			g = env.boolTerm(r.Expr)
		}()
		if g == nil {
			continue // mentions parameters: checked by the callback specification instead
		}
		ex.oblige(st, "closure-pre@"+fnKeyOf(fn), r.Label, mergeProps(r.Props, ex.safetyProps(fr)[1:]), g, site.Pos(), fnKeyOf(fr.fn))
	}
}

// closureUseType: the named function type a closure is created for (the result type of the
// function returning it, the type it is converted to, the field or parameter it is stored in
// or passed as), when a callback specification exists for that type.
func (ex *Exec) closureUseType(fr *Frame, x ssa.Value, users []ssa.Instruction) (string, *Contract) {
	try := func(t types.Type) (string, *Contract) {
		if n, ok := t.(*types.Named); ok {
			key := "callback " + typeKey(n)
			if c := ex.specs.Contracts[key]; c != nil {
				return key, c
			}
		}
		return "", nil
	}
	for _, r := range users {
		switch u := r.(type) {
		case *ssa.Return:
			rs := fr.fn.Signature.Results()
			for i, v := range u.Results {
				if v == x && i < rs.Len() {
					if k, c := try(rs.At(i).Type()); c != nil {
						return k, c
					}
				}
			}
		case *ssa.ChangeType:
			if k, c := try(u.Type()); c != nil {
				return k, c
			}
		case *ssa.Store:
			if u.Val == x {
				if k, c := try(deref(u.Addr.Type())); c != nil {
					return k, c
				}
			}
		case *ssa.Call:
			sig := u.Common().Signature()
			for i, a := range u.Common().Args {
				if a == x && sig != nil && !u.Common().IsInvoke() {
					j := i
					if sig.Recv() != nil {
						j = i - 1
					}
					if j >= 0 && j < sig.Params().Len() {
						if k, c := try(sig.Params().At(j).Type()); c != nil {
							return k, c
						}
					}
				}
			}
		}
	}
	return "", nil
}

// conformClosure: a closure without a contract of its own that is handed out as a value of a
// function type with a callback specification is what callers of that type will invoke under
// that specification. Its body is executed here, on a copy of the state it is created in, for
// arbitrary arguments satisfying the callback's precondition: its run-time checks and the
// preconditions of what it calls become obligations, and the callback's postconditions are
// checked at its returns. Its effects are discarded.
func (ex *Exec) conformClosure(fr *Frame, st *State, x ssa.Value, users []ssa.Instruction, fn *ssa.Function, c *Closure) {
	if ex.recording != nil || len(fn.Blocks) == 0 || !inRepo(fn) {
		return
	}
	key := fnKeyOf(fn)
	if ex.specs.Contracts[key] != nil {
		return // verified on its own against its own contract
	}
	cbKey, cb := ex.closureUseType(fr, x, users)
	if cb == nil {
		return
	}
	cb.Used = true
	ex.usedSpecs[cbKey] = true
	fork := st.clone()
	fork.Trace = append(fork.Trace, "conform "+key+" to "+cbKey)
	var args []Value
	for _, p := range fn.Params {
		args = append(args, ex.freshValue(fork, p.Type(), "cb."+p.Name()))
	}
	self := Value{T: fn.Signature, L: []*Term{ex.funcID(fn)}}
	cargs := append([]Value{self}, args...)
	env := ex.contractEnv(cb, nil, cargs, nil, fork, fr)
	for _, r := range cb.Requires {
		if g := tryBool(env, r.Expr); g != nil {
			fork.assume(g)
		}
	}
	entry := fork.clone()
	rt := fn.Signature.Results()
	var resT types.Type = rt
	if rt.Len() == 1 {
		resT = rt.At(0).Type()
	}
	func() {
		defer func() {
			if r := recover(); r != nil {
				if ap, ok := r.(abortPath); ok {
					ex.unsupported[ap.why] = true
					return
				}
				panic(r)
			}
		}()
		ex.callByKey(fr, key, fn, args, c.Bindings, resT, x.Pos(), nil, fork, func(st2 *State, res Value) {
			if len(cb.Ensures) == 0 {
				return
			}
			env2 := ex.contractEnv(cb, nil, cargs, nil, st2, fr)
			env2.old = entry
			ex.bindResults(env2, cb, nil, res, resT)
			for _, e := range cb.Ensures {
				if g := tryBool(env2, e.Expr); g != nil {
					ex.oblige(st2, "conforms@"+strings.TrimPrefix(cbKey, "callback "), e.Label, mergeProps(e.Props, ex.safetyProps(fr)[1:]), g, x.Pos(), key)
				}
			}
		})
	}()
}

// doSpawn: `go f(args)`. The spawned function runs concurrently with the rest of the spawner:
// its precondition is an obligation of the spawner at the spawn, none of its effects is
// assumed, and the variables it captured are shared from now on - the spawner must not touch
// them again (obligation at every later load / store), which is how a loop variable hoisted
// out of an accept loop shows up.
func (ex *Exec) doSpawn(fr *Frame, st *State, g *ssa.Go) {
	common := g.Common()
	var callee *ssa.Function
	var bindings []Value
	var args []Value
	for _, a := range common.Args {
		args = append(args, ex.val(fr, st, a))
	}
	switch v := common.Value.(type) {
	case *ssa.MakeClosure:
		cv := ex.val(fr, st, v)
		if cv.Clo != nil {
			callee, _ = cv.Clo.Fn.(*ssa.Function)
			bindings = cv.Clo.Bindings
		}
	case *ssa.Function:
		callee = v
	default:
		if c := common.StaticCallee(); c != nil {
			callee = c
		}
	}
	if callee == nil {
		ex.unsupp("go statement with a dynamic callee in %s", fr.fn.Name())
	}
	key := fnKeyOf(callee)
	st.Trace = append(st.Trace, "go "+key)
	if c := ex.specs.Contracts[key]; c != nil {
		c.Used = true
		ex.usedSpecs["func "+key] = true
		env := ex.contractEnv(c, callee, args, bindings, st, fr)
		for _, r := range c.Requires {
			ex.oblige(st, "spawn-pre@"+key, r.Label, mergeProps(r.Props, ex.safetyProps(fr)[1:]), env.boolTerm(r.Expr), g.Pos(), fnKeyOf(fr.fn))
		}
		if len(c.SpawnSets) > 0 {
			env.old = st.clone()
			tmp := &Contract{Ghosts: c.SpawnSets}
			ex.applyGhostSets(env, tmp, st)
		}
	}
	if ex.specs.Contracts[key] == nil && inRepo(callee) && len(callee.Blocks) > 0 {
		// no contract for the started function: its body is executed on a copy of the state,
		// so that the obligations inside it (preconditions of what it calls) are generated for
		// the state it is started in; its effects are discarded (it runs concurrently)
		fork := st.clone()
		rt := callee.Signature.Results()
		var resT types.Type = rt
		if rt.Len() == 1 {
			resT = rt.At(0).Type()
		}
		func() {
			defer func() {
				if r := recover(); r != nil {
					if ap, ok := r.(abortPath); ok {
						ex.unsupported[ap.why] = true
						return
					}
					panic(r)
				}
			}()
			ex.callByKey(fr, key, callee, args, bindings, resT, g.Pos(), nil, fork, func(*State, Value) {})
		}()
	}
	for i, b := range bindings {
		if b.Loc != nil && b.Loc.Kind == "cell" {
			if st.Shared == nil {
				st.Shared = map[*Cell]string{}
			}
			name := "?"
			if i < len(callee.FreeVars) {
				name = callee.FreeVars[i].Name()
			}
			st.Shared[b.Loc.Cell] = name
		}
	}
}
