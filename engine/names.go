package main

import (
	"encoding/json"
	"go/types"
	"os"
	"sort"

	"golang.org/x/tools/go/ssa"
)

// Contracts name parameters, receivers and locals of the functions they annotate. A purely
// cosmetic rename would make those clauses unbindable. The names every function had on the
// baseline tree are recorded in baseline_names.json (written with -write-baseline only); when a
// recorded name has disappeared, it is bound to the new name that took its place:
//   - parameters, receivers and captured variables by position;
//   - locals by kind (all integer types are one kind) and order of first appearance among the
//     names that disappeared / appeared.
// The alias only adds a binding for the old name; every obligation is still generated and must
// be discharged with that binding, so a wrong guess shows up as an undischarged obligation, never
// as a silent pass of a postcondition (postconditions are stated over parameters, results, the
// heap and ghosts; invariants and scoped clauses are auxiliary to them).

type localName struct {
	Name  string `json:"name"`
	Class string `json:"class"`
	Order int    `json:"order"`
}

type fnNames struct {
	Sig      string      `json:"sig,omitempty"`
	Params   []string    `json:"params"`
	Callees  []string    `json:"callees,omitempty"` // what the body calls (for recognising a renamed / re-nested function)
	Results  []string    `json:"results,omitempty"`
	FreeVars []string    `json:"freevars,omitempty"`
	Locals   []localName `json:"locals,omitempty"`
}

var baseNames map[string]*fnNames

func loadBaseNames(path string) {
	baseNames = map[string]*fnNames{}
	if data, err := os.ReadFile(path); err == nil {
		json.Unmarshal(data, &baseNames)
	}
}

func nameClass(t types.Type) string {
	switch u := t.Underlying().(type) {
	case *types.Basic:
		switch {
		case u.Info()&types.IsInteger != 0:
			return "int"
		case u.Info()&types.IsString != 0:
			return "string"
		case u.Info()&types.IsBoolean != 0:
			return "bool"
		}
		return u.Name()
	case *types.Interface:
		if types.Identical(t, errType) {
			return "error"
		}
	}
	return typeKey(t)
}

var errType = types.Universe.Lookup("error").Type()

// currentNames collects the names of fn as they are now.
func currentNames(fn *ssa.Function) *fnNames {
	out := &fnNames{Sig: sigOf(fn), Callees: calleeSet(fn)}
	isParam := map[string]bool{}
	for _, p := range fn.Params {
		out.Params = append(out.Params, p.Name())
		isParam[p.Name()] = true
	}
	for i := 0; i < fn.Signature.Results().Len(); i++ {
		out.Results = append(out.Results, fn.Signature.Results().At(i).Name())
	}
	for _, p := range fn.FreeVars {
		out.FreeVars = append(out.FreeVars, p.Name())
		isParam[p.Name()] = true
	}
	seen := map[string]bool{}
	n := 0
	for _, b := range fn.Blocks {
		for _, ins := range b.Instrs {
			n++
			d, ok := ins.(*ssa.DebugRef)
			if !ok || d.Object() == nil {
				continue
			}
			vv, isVar := d.Object().(*types.Var)
			if !isVar || vv.IsField() || seen[vv.Name()] || isParam[vv.Name()] || vv.Name() == "_" {
				continue
			}
			seen[vv.Name()] = true
			out.Locals = append(out.Locals, localName{Name: vv.Name(), Class: nameClass(vv.Type()), Order: n})
		}
	}
	return out
}

// aliasesOf returns old name -> new names (in order of preference) for fn.
func (ex *Exec) aliasesOf(fn *ssa.Function) map[string][]string {
	if a, ok := ex.aliasCache[fn]; ok {
		return a
	}
	if ex.aliasCache == nil {
		ex.aliasCache = map[*ssa.Function]map[string][]string{}
	}
	out := map[string][]string{}
	ex.aliasCache[fn] = out
	base := baseNames[fnKeyOf(fn)]
	if base == nil {
		return out
	}
	cur := currentNames(fn)
	curAll := map[string]bool{}
	for _, n := range cur.Params {
		curAll[n] = true
	}
	for _, n := range cur.FreeVars {
		curAll[n] = true
	}
	for _, l := range cur.Locals {
		curAll[l.Name] = true
	}
	baseAll := map[string]bool{}
	for _, n := range base.Params {
		baseAll[n] = true
	}
	for _, n := range base.FreeVars {
		baseAll[n] = true
	}
	for _, l := range base.Locals {
		baseAll[l.Name] = true
	}
	pos := func(b, c []string) {
		if len(b) != len(c) {
			return
		}
		for i := range b {
			if b[i] != c[i] && !curAll[b[i]] && b[i] != "_" && c[i] != "_" {
				out[b[i]] = []string{c[i]}
			}
		}
	}
	pos(base.Params, cur.Params)
	pos(base.FreeVars, cur.FreeVars)
	taken := map[string]bool{}
	for _, ns := range out {
		for _, n := range ns {
			taken[n] = true
		}
	}
	missing := map[string][]localName{}
	added := map[string][]localName{}
	for _, l := range base.Locals {
		if !curAll[l.Name] && out[l.Name] == nil {
			missing[l.Class] = append(missing[l.Class], l)
		}
	}
	for _, l := range cur.Locals {
		if !baseAll[l.Name] && !taken[l.Name] {
			added[l.Class] = append(added[l.Class], l)
		}
	}
	for class, ms := range missing {
		as := added[class]
		if len(as) == 0 {
			continue
		}
		sort.Slice(ms, func(i, j int) bool { return ms[i].Order < ms[j].Order })
		sort.Slice(as, func(i, j int) bool { return as[i].Order < as[j].Order })
		switch {
		case len(ms) == len(as):
			for i := range ms {
				out[ms[i].Name] = []string{as[i].Name}
			}
		case len(ms) == 1:
			// one variable became several (a re-used variable was split): the definition that
			// reaches the point of use decides
			for _, a := range as {
				out[ms[0].Name] = append(out[ms[0].Name], a.Name)
			}
		case len(as) == 1:
			for _, m := range ms {
				out[m.Name] = []string{as[0].Name}
			}
		default:
			for i := range ms {
				if i < len(as) {
					out[ms[i].Name] = []string{as[i].Name}
				}
			}
		}
	}
	if len(out) > 0 {
		ex.rebound[fnKeyOf(fn)] = out
	}
	return out
}

// applyAliases adds bindings for disappeared names to an environment built for fn.
func (ex *Exec) applyAliases(env *Env, fn *ssa.Function) {
	for old, news := range ex.aliasesOf(fn) {
		for _, form := range [][2]string{{"", ""}, {"", "0"}, {"$", ""}} {
			o := form[0] + old + form[1]
			if _, has := env.vars[o]; has {
				continue
			}
			for _, n := range news {
				if v, ok := env.vars[form[0]+n+form[1]]; ok {
					env.vars[o] = v
					break
				}
			}
		}
	}
}

// applyBinds: names bound by `bind NAME = CALLEE` denote the result of the call of CALLEE that
// has been executed in this frame and dominates the point of evaluation (block at; nil = anywhere).
func (ex *Exec) applyBinds(env *Env, fr *Frame, at *ssa.BasicBlock) {
	c := ex.specs.Contracts[fnKeyOf(fr.fn)]
	if c == nil || len(c.Binds) == 0 {
		return
	}
	for name, callee := range c.Binds {
		if _, has := env.vars[name]; has {
			continue
		}
		var best ssa.Value
		bestOrder := 0
		for v, val := range fr.vals {
			call, ok := v.(*ssa.Call)
			if !ok {
				continue
			}
			sc := call.Common().StaticCallee()
			if sc == nil || fnKeyOf(sc) != callee {
				continue
			}
			if at != nil && call.Block() != at && !call.Block().Dominates(at) {
				continue
			}
			if o := ex.instrOrder(fr.fn, call); best == nil || o < bestOrder {
				best, bestOrder = v, o
				_ = val
			}
		}
		if best != nil {
			env.vars[name] = fr.vals[best]
		}
	}
}

func writeBaseNames(path string, ld *Loaded, keys []string) {
	all := map[string]*fnNames{}
	if data, err := os.ReadFile(path); err == nil {
		json.Unmarshal(data, &all)
	}
	for _, k := range keys {
		if fn := ld.byKey[k]; fn != nil {
			all[k] = currentNames(fn)
		}
	}
	data, _ := json.MarshalIndent(all, "", " ")
	os.WriteFile(path, data, 0o644)
}

// ---- functions that were renamed or moved to another closure nesting depth ----
//
// Contracts, baseline obligations and recorded names are keyed by the function's name
// (closures: Outer$1$2). When an unexported function or a closure is renamed / re-nested, the
// recorded key is re-attached to the unique new function of the same group (same top-level
// function for closures; same package and receiver for named functions) with the same signature.

var keyOverride = map[*ssa.Function]string{}
var rekeyed = map[string]string{} // recorded key -> natural key of the function now carrying it

func naturalKey(fn *ssa.Function) string { return shortenPaths(fn.String()) }

// sigOf: the signature by types only (parameter and result names are not part of it)
func sigOf(fn *ssa.Function) string {
	sig := fn.Signature
	var b []byte
	b = append(b, "func("...)
	for i := 0; i < sig.Params().Len(); i++ {
		if i > 0 {
			b = append(b, ", "...)
		}
		if sig.Variadic() && i == sig.Params().Len()-1 {
			b = append(b, "..."...)
		}
		b = append(b, types.TypeString(sig.Params().At(i).Type(), nil)...)
	}
	b = append(b, ") ("...)
	for i := 0; i < sig.Results().Len(); i++ {
		if i > 0 {
			b = append(b, ", "...)
		}
		b = append(b, types.TypeString(sig.Results().At(i).Type(), nil)...)
	}
	b = append(b, ')')
	return shortenPaths(string(b))
}

func calleeSet(fn *ssa.Function) []string {
	set := map[string]bool{}
	for _, b := range fn.Blocks {
		for _, ins := range b.Instrs {
			var c *ssa.CallCommon
			switch x := ins.(type) {
			case *ssa.Call:
				c = x.Common()
			case *ssa.Defer:
				c = x.Common()
			case *ssa.Go:
				c = x.Common()
			}
			if c == nil {
				continue
			}
			switch {
			case c.IsInvoke():
				set["invoke "+c.Method.Name()] = true
			case c.StaticCallee() != nil:
				if c.StaticCallee().Parent() == nil { // closures are named by nesting, which is what changes
					set[shortenPaths(c.StaticCallee().String())] = true
				}
			default:
				if bi, ok := c.Value.(*ssa.Builtin); ok {
					set["builtin "+bi.Name()] = true
				}
			}
		}
	}
	return sortedKeys(set)
}

// similar: the bodies call largely the same things (Jaccard index of the callee sets >= 1/2)
func similarCallees(a, b []string) bool {
	if len(a) == 0 && len(b) == 0 {
		return true
	}
	in := map[string]bool{}
	for _, x := range a {
		in[x] = true
	}
	inter := 0
	union := len(a)
	for _, x := range b {
		if in[x] {
			inter++
		} else {
			union++
		}
	}
	return 2*inter >= union
}

func keyGroup(k string) string {
	if i := indexByte(k, '$'); i >= 0 {
		return k[:i] + "$"
	}
	// "(*wire.Session).handleBind" -> "(*wire.Session)." ; "wire.ErrorCode" -> "wire."
	for i := len(k) - 1; i >= 0; i-- {
		if k[i] == '.' {
			return k[:i+1]
		}
	}
	return k
}

func indexByte(s string, c byte) int {
	for i := 0; i < len(s); i++ {
		if s[i] == c {
			return i
		}
	}
	return -1
}

func baseNameOfKey(k string) string {
	if indexByte(k, '$') >= 0 {
		return ""
	}
	for i := len(k) - 1; i >= 0; i-- {
		if k[i] == '.' {
			return k[i+1:]
		}
	}
	return k
}

func freeVarNames(f *ssa.Function) []string {
	var out []string
	for _, v := range f.FreeVars {
		out = append(out, v.Name())
	}
	return out
}

func sameStrings(a, b []string) bool {
	if len(a) != len(b) {
		return false
	}
	for i := range a {
		if a[i] != b[i] {
			return false
		}
	}
	return true
}

func eligibleForRekey(k string) bool {
	if indexByte(k, '$') >= 0 {
		return true
	}
	n := baseNameOfKey(k)
	return n != "" && n[0] >= 'a' && n[0] <= 'z'
}

func computeKeyOverrides(funcs []*ssa.Function) {
	if len(baseNames) == 0 {
		return
	}
	byNat := map[string]*ssa.Function{}
	for _, f := range funcs {
		byNat[naturalKey(f)] = f
	}
	stable := map[*ssa.Function]bool{}
	for _, f := range funcs {
		if b := baseNames[naturalKey(f)]; b != nil && (b.Sig == "" || b.Sig == sigOf(f)) {
			// closures are numbered in source order: a closure inserted before this one takes
			// over its name, so a closure keeps its key only while it still looks like the
			// recorded one (what it captures, or what it calls)
			if f.Parent() != nil && b.Sig != "" && !sameStrings(b.FreeVars, freeVarNames(f)) && !similarCallees(b.Callees, calleeSet(f)) {
				continue
			}
			stable[f] = true
		}
	}
	var orphans []string
	for k, b := range baseNames {
		if b.Sig == "" || !eligibleForRekey(k) {
			continue
		}
		if f := byNat[k]; f == nil || !stable[f] {
			orphans = append(orphans, k)
		}
	}
	sort.Strings(orphans)
	assigned := map[*ssa.Function]bool{}
	for _, k := range orphans {
		var cands []*ssa.Function
		for _, f := range funcs {
			nk := naturalKey(f)
			if stable[f] || assigned[f] || !eligibleForRekey(nk) {
				continue
			}
			if keyGroup(nk) == keyGroup(k) && sigOf(f) == baseNames[k].Sig && similarCallees(baseNames[k].Callees, calleeSet(f)) {
				cands = append(cands, f)
			}
		}
		if len(cands) == 1 {
			assigned[cands[0]] = true
			if naturalKey(cands[0]) != k {
				keyOverride[cands[0]] = k
				rekeyed[k] = naturalKey(cands[0])
			}
		}
	}
	// a function whose recorded signature differs and that found no recorded key of its own
	// must not be verified against the contract written for the previous owner of its name
	for _, f := range funcs {
		nk := naturalKey(f)
		if !stable[f] && !assigned[f] && baseNames[nk] != nil && baseNames[nk].Sig != "" {
			keyOverride[f] = nk + "~changed"
		}
	}
}

// ---- loop specifications when loops were added to or removed from a function ----
//
// `loop N` blocks are keyed by the ordinal of the loop in source order. When the number of loops
// of a function no longer equals the number of its loop blocks (a loop moved into a helper, two
// loops merged, a new loop), the blocks are re-attached in source order to the loops they fit
// best: the fit of a block to a loop is the number of identifiers of its clauses that the loop
// assigns (header phis, stores through, map updates). A block left over is dropped (NOTE), a
// loop left over is checked by bounded unrolling (§2.4) - neither is silently assumed.

type loopMatch struct {
	specOf  map[int]int // loop ordinal -> spec ordinal
	dropped []int       // spec ordinals without a loop
}

var loopMatches = map[*ssa.Function]*loopMatch{}
var droppedLoopSpecs = map[string][]int{} // function key -> dropped spec ordinals (for the report)

func identsOf(e *SExpr, out map[string]bool) {
	if e == nil {
		return
	}
	if e.Kind == "ident" {
		out[e.Name] = true
	}
	for _, a := range e.Args {
		identsOf(a, out)
	}
}

func (ex *Exec) loopAssigned(fn *ssa.Function, h *ssa.BasicBlock) map[string]bool {
	out := map[string]bool{}
	li := loopsOf(fn)
	for _, ins := range h.Instrs {
		if phi, ok := ins.(*ssa.Phi); ok && phi.Comment != "" {
			out[phi.Comment] = true
		}
	}
	for b := range li.body[h] {
		for _, ins := range b.Instrs {
			switch x := ins.(type) {
			case *ssa.Store:
				out[ex.operandName(fn, x.Addr)] = true
				if ia, ok := x.Addr.(*ssa.IndexAddr); ok {
					out[ex.operandName(fn, ia.X)] = true
				}
			case *ssa.MapUpdate:
				out[ex.operandName(fn, x.Map)] = true
			}
		}
	}
	// old names of renamed variables count as well
	for old, news := range ex.aliasesOf(fn) {
		for _, n := range news {
			if out[n] {
				out[old] = true
			}
		}
	}
	return out
}

// loopSpecStale: the block names a local variable of the baseline function that neither exists
// nor has a renamed successor in the current function.
func (ex *Exec) loopSpecStale(fn *ssa.Function, ls *LoopSpec) bool {
	base := baseNames[fnKeyOf(fn)]
	if base == nil || ls == nil {
		return false
	}
	ids := map[string]bool{}
	for _, cl := range ls.Invariants {
		identsOf(cl.Expr, ids)
	}
	for _, cl := range ls.Steps {
		identsOf(cl.Expr, ids)
	}
	identsOf(ls.Decreases, ids)
	cur := currentNames(fn)
	have := map[string]bool{}
	for _, l := range cur.Locals {
		have[l.Name] = true
	}
	for _, n := range cur.Params {
		have[n] = true
	}
	for _, n := range cur.FreeVars {
		have[n] = true
	}
	for _, n := range cur.Results {
		have[n] = true
	}
	aliases := ex.aliasesOf(fn)
	for _, l := range base.Locals {
		if !ids[l.Name] || have[l.Name] {
			continue
		}
		if len(aliases[l.Name]) > 0 {
			continue
		}
		return true
	}
	return false
}

// notInductive: loop blocks (function key -> spec ordinals) whose invariants were discharged on
// the baseline tree and do not hold for the loop as it is now. The block is set aside and the
// loop is unrolled instead (runCheck, second pass).
var notInductive = map[string]map[int]bool{}

func (ex *Exec) matchLoops(fn *ssa.Function, c *Contract) *loopMatch {
	if m, ok := loopMatches[fn]; ok {
		return m
	}
	if set := notInductive[fnKeyOf(fn)]; len(set) > 0 {
		kept := &Contract{Loops: map[int]*LoopSpec{}}
		var dropped []int
		for o, ls := range c.Loops {
			if set[o] {
				dropped = append(dropped, o)
			} else {
				kept.Loops[o] = ls
			}
		}
		sort.Ints(dropped)
		// blocks are matched to loops as before; a loop matched to a set-aside block has none
		full := ex.matchLoopsOf(fn, c)
		m := &loopMatch{specOf: map[int]int{}, dropped: append([]int(nil), full.dropped...)}
		for l, so := range full.specOf {
			if !set[so] {
				m.specOf[l] = so
			}
		}
		m.dropped = append(m.dropped, dropped...)
		loopMatches[fn] = m
		droppedLoopSpecs[fnKeyOf(fn)] = m.dropped
		return m
	}
	return ex.matchLoopsOf(fn, c)
}

func (ex *Exec) matchLoopsOf(fn *ssa.Function, c *Contract) *loopMatch {
	if m, ok := loopMatches[fn]; ok {
		return m
	}
	li := loopsOf(fn)
	n := len(li.headers)
	m := &loopMatch{specOf: map[int]int{}}
	loopMatches[fn] = m
	var specOrds []int
	for o := range c.Loops {
		specOrds = append(specOrds, o)
	}
	sort.Ints(specOrds)
	{
		// a block about a variable the function no longer has cannot be evaluated at any loop
		live := specOrds[:0]
		for _, o := range specOrds {
			if ex.loopSpecStale(fn, c.Loops[o]) {
				m.dropped = append(m.dropped, o)
			} else {
				live = append(live, o)
			}
		}
		if len(m.dropped) > 0 {
			specOrds = live
			droppedLoopSpecs[fnKeyOf(fn)] = m.dropped
			if len(specOrds) == 0 {
				return m
			}
		}
	}
	direct := len(specOrds) == n && len(m.dropped) == 0
	for i, o := range specOrds {
		if o != i {
			direct = false
		}
	}
	if direct || len(specOrds) == 0 {
		for _, o := range specOrds {
			m.specOf[o] = o
		}
		return m
	}
	headers := make([]*ssa.BasicBlock, n)
	for h, o := range li.headers {
		headers[o] = h
	}
	score := make([][]int, len(specOrds))
	for i, so := range specOrds {
		ids := map[string]bool{}
		ls := c.Loops[so]
		for _, cl := range ls.Invariants {
			identsOf(cl.Expr, ids)
		}
		for _, cl := range ls.Steps {
			identsOf(cl.Expr, ids)
		}
		identsOf(ls.Decreases, ids)
		score[i] = make([]int, n)
		for l := 0; l < n; l++ {
			as := ex.loopAssigned(fn, headers[l])
			for id := range ids {
				if as[id] {
					score[i][l] += 2
				}
			}
			score[i][l]++ // any pairing beats none
		}
	}
	// best order-preserving partial matching (dynamic programming)
	S, L := len(specOrds), n
	best := make([][]int, S+1)
	choice := make([][]int, S+1)
	for i := range best {
		best[i] = make([]int, L+1)
		choice[i] = make([]int, L+1)
	}
	for i := S - 1; i >= 0; i-- {
		for l := L - 1; l >= 0; l-- {
			best[i][l], choice[i][l] = best[i+1][l], 1 // drop spec i
			if best[i][l+1] > best[i][l] {
				best[i][l], choice[i][l] = best[i][l+1], 2 // leave loop l without a spec
			}
			if v := score[i][l] + best[i+1][l+1]; v > best[i][l] {
				best[i][l], choice[i][l] = v, 3
			}
		}
	}
	i, l := 0, 0
	for i < S && l < L {
		switch choice[i][l] {
		case 3:
			m.specOf[l] = specOrds[i]
			i++
			l++
		case 2:
			l++
		default:
			m.dropped = append(m.dropped, specOrds[i])
			i++
		}
	}
	for ; i < S; i++ {
		m.dropped = append(m.dropped, specOrds[i])
	}
	if len(m.dropped) > 0 {
		droppedLoopSpecs[fnKeyOf(fn)] = m.dropped
	}
	return m
}
