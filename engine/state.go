package main

import (
	"fmt"
	"go/types"
)

// MemWrite is one entry of an element-memory write log.
type MemWrite struct {
	Arr     *Term
	Lo, Hi  *Term               // region [Lo,Hi) of absolute indices; point write when Hi == nil
	Val     *Term               // point write value
	Content func(idx *Term) *Term // region content
}

type MemLog struct {
	Base   *Term // (Array Int (Array Int S))
	Writes []MemWrite
	Sort   string // element leaf sort
}

func (m *MemLog) read(arr, idx *Term) *Term {
	t := Select(Select(m.Base, arr), idx)
	for _, w := range m.Writes {
		var hit *Term
		if w.Hi == nil {
			hit = And(Eq(arr, w.Arr), Eq(idx, w.Lo))
			t = Ite(hit, w.Val, t)
		} else {
			hit = And(Eq(arr, w.Arr), Le(w.Lo, idx), Lt(idx, w.Hi))
			if hit.IsFalse() {
				continue
			}
			t = Ite(hit, w.Content(idx), t)
		}
	}
	return t
}

func (m *MemLog) with(w MemWrite) *MemLog {
	nw := make([]MemWrite, len(m.Writes), len(m.Writes)+1)
	copy(nw, m.Writes)
	nw = append(nw, w)
	return &MemLog{Base: m.Base, Writes: nw, Sort: m.Sort}
}

type State struct {
	Heap   map[string]*Term   // heap field arrays, ghost field arrays, map arrays
	Mem    map[string]*MemLog // element memories
	Ghost  map[string]*Term   // global ghosts
	Cells  map[*Cell]Value
	PC     []*Term
	Alloc  *Term // current allocation counter
	Closures map[string]*Closure // by id term string
	Trace  []string            // human-readable path (callee names, branch outcomes)
	Dirty  map[string]bool     // arrays written on this path (names with prefix H:/M:/G:)
	DirtyCells map[*Cell]bool
	Shared map[*Cell]string // variables captured by a goroutine this function started (value: where)
	retSite string
	Unrolled int // iterations of unrolled (specification-less) loops taken on this path
	topFrame *Frame
	pcSet  map[string]bool
	Each   []*EachFact // element invariants of slices, instantiated at every element load
	Defs   map[string]bool     // recursive spec-function applications already unfolded
}

func (s *State) clone() *State {
	n := &State{Alloc: s.Alloc, retSite: s.retSite, topFrame: s.topFrame, Unrolled: s.Unrolled}
	n.Heap = make(map[string]*Term, len(s.Heap))
	for k, v := range s.Heap {
		n.Heap[k] = v
	}
	n.Mem = make(map[string]*MemLog, len(s.Mem))
	for k, v := range s.Mem {
		n.Mem[k] = v
	}
	n.Ghost = make(map[string]*Term, len(s.Ghost))
	for k, v := range s.Ghost {
		n.Ghost[k] = v
	}
	n.Cells = make(map[*Cell]Value, len(s.Cells))
	for k, v := range s.Cells {
		n.Cells[k] = v
	}
	n.Closures = make(map[string]*Closure, len(s.Closures))
	for k, v := range s.Closures {
		n.Closures[k] = v
	}
	n.Dirty = make(map[string]bool, len(s.Dirty))
	for k, v := range s.Dirty {
		n.Dirty[k] = v
	}
	n.DirtyCells = make(map[*Cell]bool, len(s.DirtyCells))
	for k, v := range s.DirtyCells {
		n.DirtyCells[k] = v
	}
	if len(s.Shared) > 0 {
		n.Shared = make(map[*Cell]string, len(s.Shared))
		for k, v := range s.Shared {
			n.Shared[k] = v
		}
	}
	n.Defs = make(map[string]bool, len(s.Defs))
	for k, v := range s.Defs {
		n.Defs[k] = v
	}
	n.Each = append([]*EachFact(nil), s.Each...)
	n.PC = append([]*Term(nil), s.PC...)
	n.Trace = append([]string(nil), s.Trace...)
	return n
}

func (s *State) assume(t *Term) {
	if t.IsTrue() {
		return
	}
	if s.pcSet == nil {
		s.pcSet = map[string]bool{}
		for _, x := range s.PC {
			s.pcSet[x.String()] = true
		}
	}
	k := t.String()
	if s.pcSet[k] {
		return
	}
	s.pcSet[k] = true
	s.PC = append(s.PC, t)
}

func (s *State) heapArr(name, elemS string) *Term {
	if t, ok := s.Heap[name]; ok {
		return t
	}
	as := SArrI
	if elemS == SBool {
		as = SArrB
	}
	t := Var("H0."+name, as)
	s.Heap[name] = t
	return t
}

func (s *State) mem(name, elemS string) *MemLog {
	if m, ok := s.Mem[name]; ok {
		return m
	}
	as := SArr2I
	if elemS == SBool {
		as = SArr2B
	}
	m := &MemLog{Base: Var("M0."+name, as), Sort: elemS}
	s.Mem[name] = m
	return m
}

func (s *State) ghost(name, sort string) *Term {
	if t, ok := s.Ghost[name]; ok {
		return t
	}
	t := Var("G0."+name, sort)
	s.Ghost[name] = t
	return t
}

// heap array name for a struct leaf
func heapName(structT types.Type, path string) string {
	return typeKey(deref(structT)) + path
}

func deref(t types.Type) types.Type {
	if p, ok := t.Underlying().(*types.Pointer); ok {
		return p.Elem()
	}
	return t
}

func memName(elem types.Type, leafPath string) string {
	return "[]" + typeKey(elem) + leafPath
}

// loadObj reads the value at struct-object obj, field-path prefix path, of type t.
func (s *State) loadObj(obj *Term, structT types.Type, path string, t types.Type) Value {
	ls := leavesOf(t)
	v := Value{T: t, L: make([]*Term, len(ls))}
	for i, l := range ls {
		v.L[i] = Select(s.heapArr(heapName(structT, path+l.Path), l.Sort), obj)
	}
	return v
}

func (s *State) storeObj(obj *Term, structT types.Type, path string, v Value) {
	ls := leavesOf(v.T)
	if len(ls) != len(v.L) {
		panic(fmt.Sprintf("storeObj: leaf mismatch for %s: %d vs %d", v.T, len(ls), len(v.L)))
	}
	for i, l := range ls {
		n := heapName(structT, path+l.Path)
		s.Heap[n] = Store(s.heapArr(n, l.Sort), obj, v.L[i])
		s.Dirty["H:"+n] = true
	}
}

func (s *State) loadElem(arr, idx *Term, t types.Type) Value {
	ls := leavesOf(t)
	v := Value{T: t, L: make([]*Term, len(ls))}
	for i, l := range ls {
		v.L[i] = s.mem(memName(t, l.Path), l.Sort).read(arr, idx)
	}
	return v
}

func (s *State) dropEach(elem types.Type) {
	if len(s.Each) == 0 {
		return
	}
	k := typeKey(elem)
	var keep []*EachFact
	for _, f := range s.Each {
		if f.ElemKey != k {
			keep = append(keep, f)
		}
	}
	s.Each = keep
}

func (s *State) storeElem(arr, idx *Term, v Value) {
	s.dropEach(v.T)
	ls := leavesOf(v.T)
	for i, l := range ls {
		n := memName(v.T, l.Path)
		s.Mem[n] = s.mem(n, l.Sort).with(MemWrite{Arr: arr, Lo: idx, Val: v.L[i]})
		s.Dirty["M:"+n] = true
	}
}

// regionWrite overwrites [lo,hi) of arr for every leaf memory of elem type t
// with contents given per leaf.
func (s *State) regionWrite(arr, lo, hi *Term, t types.Type, content func(leaf Leaf, idx *Term) *Term) {
	s.dropEach(t)
	for _, l := range leavesOf(t) {
		l := l
		n := memName(t, l.Path)
		s.Mem[n] = s.mem(n, l.Sort).with(MemWrite{Arr: arr, Lo: lo, Hi: hi, Content: func(idx *Term) *Term { return content(l, idx) }})
		s.Dirty["M:"+n] = true
	}
}

// EachFact: every element x of the slice (Arr,Off,Len) satisfies Pred(x); assumed
// facts are instantiated whenever an element of that memory is loaded.
type EachFact struct {
	Arr, Off, Len *Term
	ElemKey       string
	Var           string
	Pred          *SExpr
	Env           *Env
	Guard         *Term // fact holds under this condition
}
