package main

// Values: every Go value is a flat vector of SMT leaf terms determined by its
// type (see leavesOf). Interior pointers are executor-level locations.

import (
	"fmt"
	"go/types"
	"regexp"
	"strings"
)

type Leaf struct {
	Path string // e.g. ".Msg.len"
	Sort string // SInt or SBool
	Kind string // "int","bool","ptr","str","arr","off","len","cap","tag","val","map","chan","func"
	Typ  types.Type
}

var leafCache = map[string][]Leaf{}

// opaqueNamed lists external struct types that are modelled abstractly (no
// leaves; state lives in ghost fields keyed by the object's address).
func isOpaque(t types.Type) bool {
	n, ok := t.(*types.Named)
	if !ok {
		return false
	}
	if n.Obj().Pkg() == nil {
		return false
	}
	p := n.Obj().Pkg().Path()
	if strings.HasPrefix(p, "github.com/jeroenrinzema/psql-wire") {
		return false
	}
	_, isStruct := n.Underlying().(*types.Struct)
	return isStruct
}

var typeKeyCache = map[types.Type]string{}
var reByte = regexp.MustCompile(`\bbyte\b`)
var reRune = regexp.MustCompile(`\brune\b`)
var reAny = regexp.MustCompile(`\bany\b`)

func typeKey(t types.Type) string {
	if k, ok := typeKeyCache[t]; ok {
		return k
	}
	k := types.TypeString(t, func(p *types.Package) string { return shortPkg(p.Path()) })
	k = reByte.ReplaceAllString(k, "uint8")
	k = reRune.ReplaceAllString(k, "int32")
	k = reAny.ReplaceAllString(k, "interface{}")
	typeKeyCache[t] = k
	return k
}

func shortPkg(path string) string {
	switch path {
	case "github.com/jeroenrinzema/psql-wire":
		return "wire"
	case "github.com/jeroenrinzema/psql-wire/pkg/buffer":
		return "buffer"
	case "github.com/jeroenrinzema/psql-wire/errors":
		return "perr"
	case "github.com/jeroenrinzema/psql-wire/pkg/types":
		return "ptypes"
	case "github.com/jeroenrinzema/psql-wire/codes":
		return "codes"
	}
	if i := strings.LastIndex(path, "/"); i >= 0 {
		return path[i+1:]
	}
	return path
}

func leavesOf(t types.Type) []Leaf {
	k := typeKey(t)
	if l, ok := leafCache[k]; ok {
		return l
	}
	var out []Leaf
	if isOpaque(t) {
		leafCache[k] = out
		return out
	}
	switch u := t.Underlying().(type) {
	case *types.Basic:
		switch {
		case u.Info()&types.IsBoolean != 0:
			out = []Leaf{{"", SBool, "bool", t}}
		case u.Info()&types.IsInteger != 0:
			out = []Leaf{{"", SInt, "int", t}}
		case u.Info()&types.IsString != 0:
			out = []Leaf{{"", SInt, "str", t}}
		case u.Kind() == types.UnsafePointer:
			out = []Leaf{{"", SInt, "ptr", t}}
		case u.Kind() == types.UntypedNil:
			out = []Leaf{{"", SInt, "ptr", t}}
		default:
			out = []Leaf{{"", SInt, "int", t}} // floats etc: opaque ints
		}
	case *types.Pointer:
		out = []Leaf{{"", SInt, "ptr", t}}
	case *types.Map:
		out = []Leaf{{"", SInt, "map", t}}
	case *types.Chan:
		out = []Leaf{{"", SInt, "chan", t}}
	case *types.Signature:
		out = []Leaf{{"", SInt, "func", t}}
	case *types.Slice:
		out = []Leaf{{".arr", SInt, "arr", t}, {".off", SInt, "off", t}, {".len", SInt, "len", t}, {".cap", SInt, "cap", t}}
	case *types.Interface:
		out = []Leaf{{".tag", SInt, "tag", t}, {".val", SInt, "val", t}}
	case *types.Struct:
		for i := 0; i < u.NumFields(); i++ {
			f := u.Field(i)
			for _, l := range leavesOf(f.Type()) {
				l.Path = "." + f.Name() + l.Path
				out = append(out, l)
			}
		}
	case *types.Array:
		// arrays live in element memory; identity derives from the holder
	case *types.Tuple:
		for i := 0; i < u.Len(); i++ {
			for _, l := range leavesOf(u.At(i).Type()) {
				l.Path = fmt.Sprintf(".%d%s", i, l.Path)
				out = append(out, l)
			}
		}
	default:
		panic(fmt.Sprintf("leavesOf: unsupported type %s (%T)", t, u))
	}
	leafCache[k] = out
	return out
}

// Loc is an executor-level location (interior pointer).
type Loc struct {
	Kind   string // "obj" (heap struct field range), "elem", "cell", "global"
	Obj    *Term  // heap object id (Kind obj) / array id (elem)
	Struct types.Type
	Path   string // field path prefix within Struct (Kind obj)
	Idx    *Term  // element index (absolute, Kind elem)
	Cell   *Cell
	Glob   string
	T      types.Type // type of the pointed-to value
}

type Cell struct {
	Name string
	id   int
}

type Value struct {
	T   types.Type
	L   []*Term
	Loc *Loc     // set for interior / local pointers
	Clo *Closure // set for concrete function values
	Tab bool     // a function value looked up in a dispatch table of the package (closed set of callees)
}

type Closure struct {
	Fn       interface{} // *ssa.Function
	Bindings []Value
}

func (v Value) T0() *Term {
	if len(v.L) == 0 {
		panic(fmt.Sprintf("value of type %s has no leaves", v.T))
	}
	return v.L[0]
}

func scalar(t types.Type, x *Term) Value { return Value{T: t, L: []*Term{x}} }

func sliceVal(t types.Type, arr, off, ln, cp *Term) Value {
	return Value{T: t, L: []*Term{arr, off, ln, cp}}
}

func (v Value) Arr() *Term { return v.L[0] }
func (v Value) Off() *Term { return v.L[1] }
func (v Value) Len() *Term { return v.L[2] }
func (v Value) Cap() *Term { return v.L[3] }

// field extracts the sub-value for struct field i.
func (v Value) field(i int) Value {
	st := v.T.Underlying().(*types.Struct)
	off := 0
	for j := 0; j < i; j++ {
		off += len(leavesOf(st.Field(j).Type()))
	}
	n := len(leavesOf(st.Field(i).Type()))
	return Value{T: st.Field(i).Type(), L: v.L[off : off+n]}
}

func zeroValue(t types.Type) Value {
	ls := leavesOf(t)
	v := Value{T: t, L: make([]*Term, len(ls))}
	for i, l := range ls {
		if l.Sort == SBool {
			v.L[i] = tFalse
		} else if l.Kind == "str" {
			v.L[i] = strConst("")
		} else {
			v.L[i] = Int(0)
		}
	}
	return v
}

// type tags for interface dynamic types
var typeTags = map[string]int{}
var typeTagNames = []string{"<nil>"}
var typeTagTypes = []types.Type{nil}

func typeTag(t types.Type) int {
	k := typeKey(t)
	if id, ok := typeTags[k]; ok {
		return id
	}
	id := len(typeTagNames)
	typeTags[k] = id
	typeTagNames = append(typeTagNames, k)
	typeTagTypes = append(typeTagTypes, t)
	return id
}

// string constants: interned ids (negative numbers never collide with
// symbolic string ids, which are constrained positive... we instead use a UF
// table: each literal gets a distinct small non-negative id; 0 is "").
var strIDs = map[string]int{"": 0}
var strLits = []string{""}

func strConst(s string) *Term {
	id, ok := strIDs[s]
	if !ok {
		id = len(strLits)
		strIDs[s] = id
		strLits = append(strLits, s)
	}
	return Int(int64(id))
}

func intBits(t types.Type) (bits int, signed bool, ok bool) {
	b, isB := t.Underlying().(*types.Basic)
	if !isB || b.Info()&types.IsInteger == 0 {
		return 0, false, false
	}
	switch b.Kind() {
	case types.Int8:
		return 8, true, true
	case types.Int16:
		return 16, true, true
	case types.Int32, types.UntypedRune:
		return 32, true, true
	case types.Int64, types.Int, types.UntypedInt:
		return 64, true, true
	case types.Uint8:
		return 8, false, true
	case types.Uint16:
		return 16, false, true
	case types.Uint32:
		return 32, false, true
	case types.Uint64, types.Uint, types.Uintptr:
		return 64, false, true
	}
	return 0, false, false
}
