package main

import (
	"fmt"
	"go/token"
	"go/types"
	"strings"

	"golang.org/x/tools/go/ssa"
)

const maxInlineDepth = 6

func (ex *Exec) doCall(fr *Frame, common *ssa.CallCommon, pos token.Pos, site ssa.Instruction, st *State, k func(*State, Value)) {
	var args []Value
	rt := common.Signature().Results()
	var resT types.Type = rt
	if rt.Len() == 1 {
		resT = rt.At(0).Type()
	}
	if b, ok := common.Value.(*ssa.Builtin); ok {
		for _, a := range common.Args {
			args = append(args, ex.val(fr, st, a))
		}
		r := ex.builtin(fr, st, site, b, common, args)
		k(st, r)
		return
	}
	if common.IsInvoke() {
		recv := ex.val(fr, st, common.Value)
		args = append(args, recv)
		for _, a := range common.Args {
			args = append(args, ex.val(fr, st, a))
		}
		ex.safetyCall(fr, st, site, "nilcall", common.Value, Ne(recv.L[0], Int(0)))
		key := "iface " + typeKey(common.Value.Type()) + "." + common.Method.Name()
		ex.callByKey(fr, key, nil, args, nil, resT, pos, site, st, k)
		return
	}
	for _, a := range common.Args {
		args = append(args, ex.val(fr, st, a))
	}
	if callee := common.StaticCallee(); callee != nil {
		var bindings []Value
		if mc, ok := common.Value.(*ssa.MakeClosure); ok {
			bindings = ex.val(fr, st, mc).Clo.Bindings
		}
		ex.callByKey(fr, fnKeyOf(callee), callee, args, bindings, resT, pos, site, st, k)
		return
	}
	fv := ex.val(fr, st, common.Value)
	if fv.Clo != nil {
		callee := fv.Clo.Fn.(*ssa.Function)
		if len(fv.Clo.Bindings) == 0 {
			callee = unthunk(callee) // a method expression: the method itself
		}
		ex.callByKey(fr, fnKeyOf(callee), callee, args, fv.Clo.Bindings, resT, pos, site, st, k)
		return
	}
	ex.safetyCall(fr, st, site, "nilcall", common.Value, Ne(fv.L[0], Int(0)))
	// a value that can only be one of the functions of a dispatch table (or a function taken by
	// name): one path per candidate, plus the unknown-callback path for anything else
	if sig, isSig := common.Value.Type().Underlying().(*types.Signature); isSig && !fv.L[0].IsInt() {
		{
			cands := ex.tableFunctions(common.Value.Type(), sig)
			if len(cands) > 0 && len(cands) <= 16 {
				none := tTrue
				for _, f := range cands {
					is := Eq(fv.L[0], ex.funcID(f))
					none = And(none, Not(is))
					st2 := st.clone()
					st2.assume(is)
					ex.callByKey(fr, fnKeyOf(f), f, args, nil, resT, pos, site, st2, k)
				}
				st.assume(none)
				if fv.Tab {
					// the value was looked up in the table itself: nil (key absent) is the only
					// other possibility, and calling nil was ruled out above
					st.assume(Eq(fv.L[0], Int(0)))
					return
				}
			}
		}
	}
	if fv.L[0].IsInt() {
		// the address of a known function
		for f, id := range funcIDs {
			if fv.L[0].Int.IsInt64() && fv.L[0].Int.Int64() == int64(-1000000000-id) {
				f = unthunk(f)
				ex.callByKey(fr, fnKeyOf(f), f, args, nil, resT, pos, site, st, k)
				return
			}
		}
	}
	// callback specification: by named function type, else by capture site
	key := ""
	if n, ok := common.Value.Type().(*types.Named); ok {
		key = "callback " + typeKey(n)
	} else {
		if fk, ok := fieldKeyOf(common.Value); ok {
			// a function value stored in a struct field: keyed by the field, wherever it is called
			key = "callback " + fk
		} else {
			key = "callback " + fnKeyOf(fr.fn) + "." + ex.operandName(fr.fn, common.Value)
		}
	}
	args = append([]Value{fv}, args...)
	ex.callByKey(fr, key, nil, args, nil, resT, pos, site, st, k)
}

// fieldKeyOf names a value loaded from a struct field (optionally an element of a slice field)
// by the field: "wire.Server.Statements", "wire.Server.typeExtensions[]".
func fieldKeyOf(v ssa.Value) (string, bool) {
	suffix := ""
	for depth := 0; depth < 6; depth++ {
		switch x := v.(type) {
		case *ssa.UnOp:
			if x.Op != token.MUL {
				return "", false
			}
			v = x.X
		case *ssa.IndexAddr:
			suffix = "[]" + suffix
			v = x.X
		case *ssa.Phi:
			// range loops over a slice field load the slice before the loop
			return "", false
		case *ssa.FieldAddr:
			st, ok := deref(x.X.Type()).Underlying().(*types.Struct)
			if !ok {
				return "", false
			}
			return typeKey(deref(x.X.Type())) + "." + st.Field(x.Field).Name() + suffix, true
		case *ssa.Field:
			st, ok := x.X.Type().Underlying().(*types.Struct)
			if !ok {
				return "", false
			}
			return typeKey(x.X.Type()) + "." + st.Field(x.Field).Name() + suffix, true
		default:
			return "", false
		}
	}
	return "", false
}

func (ex *Exec) safetyCall(fr *Frame, st *State, site ssa.Instruction, role string, operand ssa.Value, goal *Term) {
	if goal.IsTrue() {
		return
	}
	label := role + ":" + ex.operandName(fr.fn, operand)
	var p token.Pos
	if site != nil {
		p = site.Pos()
	}
	ex.oblige(st, "safety", label, ex.safetyProps(fr), goal, p, fnKeyOf(fr.fn))
	st.assume(goal)
}

func (ex *Exec) callByKey(fr *Frame, key string, callee *ssa.Function, args, bindings []Value, resT types.Type, pos token.Pos, site ssa.Instruction, st *State, k func(*State, Value)) {
	if i := strings.Index(key, "["); i > 0 && callee != nil && !inRepo(callee) {
		key = key[:i] // instantiation of a generic external function
	}
	st.Trace = append(st.Trace, "call "+key)
	ex.checkCallsite(fr, key, callee, args, site, st)
	if in, ok := intrinsics[key]; ok {
		ex.usedSpecs["intrinsic "+key] = true
		r := in(ex, fr, st, site, args, resT)
		k(st, r)
		return
	}
	if c := ex.specs.Contracts["extern "+key]; c != nil && ex.specs.Contracts[key] == nil {
		ex.callContract(fr, c, nil, args, bindings, resT, pos, st, k)
		return
	}
	if c := ex.specs.Contracts[key]; c != nil && !c.Inline && !(callee != nil && callee == ex.fn && fr.top && false) {
		ex.callContract(fr, c, callee, args, bindings, resT, pos, st, k)
		return
	}
	if callee != nil && inRepo(callee) && len(callee.Blocks) > 0 {
		if fr.depth >= maxInlineDepth {
			ex.unsupp("cannot inline %s (depth) and it has no contract", key)
		}
		if n := countOf(fr.callStack, key); n > 0 {
			// a recursive function without a contract: inlined up to recursionBound nested
			// activations, deeper recursion is cut (bounded, reported as such)
			if n >= recursionBound {
				if ex.bounded == nil {
					ex.bounded = map[string]int{}
				}
				ex.bounded[key+" (recursion)"] = recursionBound
				return
			}
		}
		ex.inlined[key] = true
		ex.pendingN = ex.iterAt(fr, site)
		ex.pendingSite = site
		ex.execFunc(callee, args, bindings, st, fr, func(st *State, r Value) {
			k(st, r)
		})
		return
	}
	// unknown callee
	if noEffect(key) {
		ex.usedSpecs["no-effect "+key] = true
		k(st, ex.freshValue(st, resT, "ext"))
		return
	}
	ex.unknownExt[key] = true
	ex.havocAll(st)
	k(st, ex.freshValue(st, resT, "ext"))
}

// iterAt: the iteration count of the innermost loop around instruction at, in fr or - when fr's
// function has no loop there - around the call site fr was inlined at.
func (ex *Exec) iterAt(fr *Frame, at ssa.Instruction) *Value {
	if at != nil && at.Block() != nil {
		li := loopsOf(fr.fn)
		var inner *ssa.BasicBlock
		for h, body := range li.body {
			if body[at.Block()] && (inner == nil || len(body) < len(li.body[inner])) {
				inner = h
			}
		}
		if inner != nil {
			if nv, ok := iterCount(inner, func(p *ssa.Phi) (Value, bool) { v, ok := fr.vals[p]; return v, ok }); ok {
				return &nv
			}
		}
	}
	return fr.outerN
}

const recursionBound = 3

func countOf(xs []string, x string) int {
	n := 0
	for _, y := range xs {
		if y == x {
			n++
		}
	}
	return n
}

func contains(xs []string, x string) bool {
	for _, y := range xs {
		if y == x {
			return true
		}
	}
	return false
}

// noEffect lists externals assumed to have no effect on modelled state and an unconstrained result.
func noEffect(key string) bool {
	for _, p := range []string{"(*slog.Logger).", "slog.", "(ptypes.", "(slog.", "fmt.Sprint", "(*sync.RWMutex).", "(*sync.Mutex).", "(net.Addr).", "iface net.Addr.", "(*regexp.Regexp).String", "(reflect.", "reflect.", "strings.HasPrefix", "(oid.Oid).", "iface fmt.Stringer.", "iface net.Listener.Addr", "(buffer.PrepareType).String", "(buffer.ServerErrFieldType).String"} {
		if strings.HasPrefix(key, p) {
			return true
		}
	}
	return false
}

func (ex *Exec) havocAll(st *State) {
	for n, t := range st.Heap {
		st.Heap[n] = ex.freshVar("hv."+n, t.Sort)
		st.Dirty["H:"+n] = true
	}
	for n, m := range st.Mem {
		as := SArr2I
		if m.Sort == SBool {
			as = SArr2B
		}
		st.Mem[n] = &MemLog{Base: ex.freshVar("hv."+n, as), Sort: m.Sort}
		st.Dirty["M:"+n] = true
	}
	for n, t := range st.Ghost {
		st.Ghost[n] = ex.freshVar("hv."+n, t.Sort)
		st.Dirty["G:"+n] = true
	}
	st.Dirty["*"] = true
	st.Each = nil
	ex.bumpAlloc(st)
}

// ---------- builtins ----------

func (ex *Exec) builtin(fr *Frame, st *State, site ssa.Instruction, b *ssa.Builtin, common *ssa.CallCommon, args []Value) Value {
	switch b.Name() {
	case "len":
		switch u := common.Args[0].Type().Underlying().(type) {
		case *types.Slice:
			return Value{T: tInt, L: []*Term{args[0].Len()}}
		case *types.Basic:
			if u.Info()&types.IsString != 0 {
				return Value{T: tInt, L: []*Term{UF("slen", SInt, args[0].L[0])}}
			}
		case *types.Map:
			return Value{T: tInt, L: []*Term{Ite(Eq(args[0].L[0], Int(0)), Int(0), Select(st.heapArr("mapsize:"+typeKey(args[0].T), SInt), args[0].L[0]))}}
		case *types.Pointer:
			if at, ok := u.Elem().Underlying().(*types.Array); ok {
				return Value{T: tInt, L: []*Term{Int(at.Len())}}
			}
		case *types.Array:
			return Value{T: tInt, L: []*Term{Int(u.Len())}}
		}
	case "cap":
		if _, ok := common.Args[0].Type().Underlying().(*types.Slice); ok {
			return Value{T: tInt, L: []*Term{args[0].Cap()}}
		}
	case "append":
		return ex.builtinAppend(fr, st, site, common, args)
	case "min", "max":
		if _, _, ok := intBits(common.Args[0].Type()); ok {
			r := args[0].L[0]
			for _, a := range args[1:] {
				if b.Name() == "min" {
					r = Min(r, a.L[0])
				} else {
					r = Max(r, a.L[0])
				}
			}
			return Value{T: common.Args[0].Type(), L: []*Term{r}}
		}
	case "SliceData":
		// unsafe.SliceData(b): pointer to the first element of b's array
		if sl, ok := common.Args[0].Type().Underlying().(*types.Slice); ok {
			b := args[0]
			return Value{T: types.NewPointer(sl.Elem()), Loc: &Loc{Kind: "elem", Obj: b.Arr(), Idx: b.Off(), T: sl.Elem()}}
		}
	case "String":
		// unsafe.String(p, n): the string aliasing n bytes at p
		if p := args[0]; p.Loc != nil && p.Loc.Kind == "elem" {
			return ex.stringView(st, p.Loc.Obj, p.Loc.Idx, args[1].L[0], tString)
		}
	case "recover":
		return zeroValue(anyType)
	case "copy":
		// copy(dst, src) on slices: the first min(len) elements of dst become those of src as
		// they were before the call (memmove semantics); the result is that count
		if dt, ok := common.Args[0].Type().Underlying().(*types.Slice); ok {
			if _, isSlice := common.Args[1].Type().Underlying().(*types.Slice); isSlice {
				dst, src := args[0], args[1]
				elem := dt.Elem()
				n := Ite(Le(dst.Len(), src.Len()), dst.Len(), src.Len())
				snap := map[string]*MemLog{}
				for _, l := range leavesOf(elem) {
					snap[l.Path] = st.mem(memName(elem, l.Path), l.Sort)
				}
				lo := dst.Off()
				st.regionWrite(dst.Arr(), lo, Add(lo, n), elem, func(l Leaf, idx *Term) *Term {
					return snap[l.Path].read(src.Arr(), Add(src.Off(), Sub(idx, lo)))
				})
				return Value{T: tInt, L: []*Term{n}}
			}
		}
	case "delete":
		// delete(m, k): no-op on a nil map; otherwise k leaves the domain, the size shrinks iff k was present
		m := args[0]
		k := args[1].L[0]
		tk := typeKey(m.T)
		isNil := Eq(m.L[0], Int(0))
		domAll := st.heapArrS("mapdom:"+tk, SArr2B)
		dom := Select(domAll, m.L[0])
		had := Select(dom, k)
		st.Heap["mapdom:"+tk] = Ite(isNil, domAll, Store(domAll, m.L[0], Store(dom, k, tFalse)))
		st.Dirty["H:mapdom:"+tk] = true
		sz := st.heapArr("mapsize:"+tk, SInt)
		st.Heap["mapsize:"+tk] = Ite(isNil, sz, Store(sz, m.L[0], Sub(Select(sz, m.L[0]), Ite(had, Int(1), Int(0)))))
		st.Dirty["H:mapsize:"+tk] = true
		return Value{}
	case "close":
		ch := args[0].L[0]
		closed := Select(st.heapArr("#chanclosed", SBool), ch)
		ex.safetyCall(fr, st, site, "close", common.Args[0], And(Ne(ch, Int(0)), Not(closed)))
		st.Heap["#chanclosed"] = Store(st.heapArr("#chanclosed", SBool), ch, tTrue)
		st.Dirty["H:#chanclosed"] = true
		return Value{}
	}
	ex.unsupp("builtin %s on %s", b.Name(), common.Args[0].Type())
	return Value{}
}

func (ex *Exec) builtinAppend(fr *Frame, st *State, site ssa.Instruction, common *ssa.CallCommon, args []Value) Value {
	if _, ok := common.Args[1].Type().Underlying().(*types.Slice); !ok {
		ex.unsupp("append of string")
	}
	return ex.appendSlices(st, common.Args[0].Type(), args[0], args[1])
}

// appendSlices: append(s, t...) for slices s, t of type st0.
func (ex *Exec) appendSlices(st *State, st0 types.Type, s, t Value) Value {
	elem := st0.Underlying().(*types.Slice).Elem()
	n := t.Len()
	newLen := Add(s.Len(), n)
	fits := Le(newLen, s.Cap())
	// source content snapshot
	snap := map[string]*MemLog{}
	for _, l := range leavesOf(elem) {
		snap[l.Path] = st.mem(memName(elem, l.Path), l.Sort)
	}
	// result header
	freshArr := ex.newObj(st)
	newCap := ex.freshVar("appcap", SInt)
	// trusted: Go's append over-allocates by at most a factor of two plus size-class rounding
	st.assume(And(Ge(newCap, newLen), Le(newCap, Add(Mul(Int(2), newLen), Int(64)))))
	// the header of the result is named: chains of appends otherwise nest their case
	// distinctions (fits / reallocates) into terms of exponential printed size
	force := func(t *Term) *Term {
		if t.Op == "ite" {
			v := ex.freshVar("app", t.Sort)
			st.assume(Eq(v, t))
			return v
		}
		return t
	}
	rArr := force(Ite(fits, s.Arr(), freshArr))
	rOff := force(Ite(fits, s.Off(), Int(0)))
	rCap := force(Ite(fits, s.Cap(), newCap))
	// when not fitting: copy old prefix to the fresh array
	st.regionWrite(freshArr, Int(0), Ite(fits, Int(0), s.Len()), elem, func(l Leaf, idx *Term) *Term {
		return snap[l.Path].read(s.Arr(), Add(s.Off(), idx))
	})
	// appended elements
	lo := Add(rOff, s.Len())
	st.regionWrite(rArr, lo, Add(lo, n), elem, func(l Leaf, idx *Term) *Term {
		return snap[l.Path].read(t.Arr(), Add(t.Off(), Sub(idx, lo)))
	})
	if newLen.IsInt() && newLen.Int.IsInt64() && (2*newLen.Int.Int64()+64)*sizeofElem(elem) <= 4096 {
		// growth of a slice of compile-time constant length: a constant-size allocation (not tracked)
	} else {
		st.Ghost["maxalloc"] = Ite(fits, st.ghost("maxalloc", SInt), Max(st.ghost("maxalloc", SInt), Mul(newCap, Int(sizeofElem(elem)))))
		st.Dirty["G:maxalloc"] = true
	}
	// nil stays nil only if nothing appended and s nil: arr 0 with n==0 && fits
	return sliceVal(st0, rArr, rOff, newLen, rCap)
}

// ---------- contracts at call sites ----------

type ModSet struct {
	Heap   map[string][]*Term // heap array name -> object ids whose entry may change
	Ghost  map[string]bool
	Mem    []memRegion
	Maps   map[string][]*Term // map type key -> map ids
	MemNew []*SExpr           // slices whose post-state region is written
	All    bool
}

type memRegion struct {
	elem   types.Type
	arr    *Term
	lo, hi *Term
}

func (ex *Exec) contractEnv(c *Contract, callee *ssa.Function, args, bindings []Value, st *State, fr *Frame) *Env {
	env := &Env{ex: ex, cur: st, old: st, live: st, vars: map[string]Value{}}
	if callee != nil {
		if callee.Pkg != nil {
			env.pkg = callee.Pkg.Pkg
		} else if callee.Parent() != nil && callee.Parent().Pkg != nil {
			env.pkg = callee.Parent().Pkg.Pkg
		}
		for i, p := range callee.Params {
			if i < len(args) {
				env.vars[p.Name()] = args[i]
			}
		}
		for i, fv := range callee.FreeVars {
			if i < len(bindings) {
				b := bindings[i]
				if b.Loc != nil && b.Loc.Kind == "cell" {
					// captured variable: expose current content under its name
					if cv, ok := st.Cells[b.Loc.Cell]; ok {
						env.vars[fv.Name()] = cv
						continue
					}
				}
				env.vars[fv.Name()] = b
			}
		}
		ex.applyAliases(env, callee)
	} else {
		for i, p := range c.Params {
			if i < len(args) {
				env.vars[p] = args[i]
			}
		}
		env.pkg = ex.fn.Pkg.Pkg
	}
	for _, g := range c.GhostPars {
		if fr != nil && fr.ghostPar != nil {
			if v, ok := fr.ghostPar[g]; ok {
				env.vars[g] = v
				continue
			}
		}
		env.vars[g] = specInt(ex.freshVar("gp."+g, SInt))
	}
	return env
}

func (ex *Exec) bindResults(env *Env, c *Contract, callee *ssa.Function, res Value, resT types.Type) {
	env.vars["result"] = res
	var names []string
	if callee != nil {
		rs := callee.Signature.Results()
		for i := 0; i < rs.Len(); i++ {
			names = append(names, rs.At(i).Name())
		}
	} else {
		names = c.Results
	}
	if tup, ok := resT.(*types.Tuple); ok {
		off := 0
		for i := 0; i < tup.Len(); i++ {
			n := len(leavesOf(tup.At(i).Type()))
			env.vars[fmt.Sprintf("ret%d", i)] = Value{T: tup.At(i).Type(), L: res.L[off : off+n]}
			if i < len(names) && names[i] != "" && names[i] != "_" {
				env.vars[names[i]] = Value{T: tup.At(i).Type(), L: res.L[off : off+n]}
			}
			off += n
		}
	} else if len(names) == 1 && names[0] != "" && names[0] != "_" {
		env.vars[names[0]] = res
	}
	// result names the function had on the baseline tree (a named result may have been dropped or
	// introduced since), and the conventional name of a trailing error result
	if callee != nil {
		var base []string
		if b := baseNames[fnKeyOf(callee)]; b != nil {
			base = b.Results
		}
		bind := func(i int, name string) {
			if name == "" || name == "_" {
				return
			}
			if _, has := env.vars[name]; has {
				return
			}
			if v, ok := env.vars[fmt.Sprintf("ret%d", i)]; ok {
				env.vars[name] = v
			} else if i == 0 {
				env.vars[name] = res
			}
		}
		for i, n := range base {
			bind(i, n)
		}
		rs := callee.Signature.Results()
		if rs.Len() > 0 && types.Identical(rs.At(rs.Len()-1).Type(), errType) {
			bind(rs.Len()-1, "err")
		}
	}
}

func (ex *Exec) callContract(fr *Frame, c *Contract, callee *ssa.Function, args, bindings []Value, resT types.Type, pos token.Pos, st *State, k func(*State, Value)) {
	c.Used = true
	ex.usedSpecs[c.Kind+" "+c.Key] = true
	env := ex.contractEnv(c, callee, args, bindings, st, fr)
	for _, r := range c.Requires {
		g := env.boolTerm(r.Expr)
		props := r.Props
		ex.oblige(st, "pre@"+strings.TrimPrefix(c.Key, c.Kind+" "), r.Label, mergeProps(props, ex.safetyProps(fr)[1:]), g, pos, ex.fnKey)
		st.assume(g)
	}
	pre := st.clone()
	env.old = pre
	ms := ex.resolveModifies(env, c)
	ex.havocLog = nil
	pcBefore := len(st.PC)
	ex.applyHavoc(st, ms)
	ex.bumpAlloc(st)
	ex.resolveMemNew(env, ms)
	ex.applyHavoc(st, &ModSet{Mem: ms.Mem[len(ms.Mem)-len(ms.MemNew):]})
	res := ex.freshValue(st, resT, "r")
	ex.bindResults(env, c, callee, res, resT)
	env.assuming = true
	for _, e := range c.Ensures {
		st.assume(env.boolTerm(e.Expr))
	}
	env.assuming = false
	ex.propagateHavocEqs(st, pcBefore)
	ex.applyGhostSets(env, c, st)
	k(st, res)
}

func mergeProps(a, b []string) []string {
	out := append([]string(nil), a...)
	for _, x := range b {
		if !contains(out, x) {
			out = append(out, x)
		}
	}
	return out
}

func (ex *Exec) applyGhostSets(env *Env, c *Contract, st *State) {
	// all right-hand sides are evaluated first (simultaneous assignment)
	type upd struct {
		g   *GhostAssign
		val *Term
	}
	var us []upd
	for _, g := range c.Ghosts {
		rhs := env.eval(g.RHS)
		v := rhs.L[0]
		if g.Cond != nil {
			cond := env.boolTerm(g.Cond)
			oe := *env
			oe.cur = env.old
			cur := oe.eval(g.LHS).L[0]
			v = Ite(cond, v, cur)
		}
		us = append(us, upd{g, v})
	}
	for i := range us {
		us[i].val = ex.nameTerm(st, us[i].val)
	}
	for _, u := range us {
		switch u.g.LHS.Kind {
		case "ghost":
			st.Ghost[u.g.LHS.Name] = u.val
			st.Dirty["G:"+u.g.LHS.Name] = true
		case "gfield":
			base := env.eval(u.g.LHS.Args[0])
			n := "#" + u.g.LHS.Name
			st.Heap[n] = Store(st.heapArr(n, ex.specs.ghostSort(u.g.LHS.Name)), identOf(base), u.val)
			st.Dirty["H:"+n] = true
		default:
			sfail("ghostset target must be a ghost: %s", u.g.LHS)
		}
	}
}

func (ex *Exec) resolveModifies(env *Env, c *Contract) *ModSet {
	ms := &ModSet{Heap: map[string][]*Term{}, Ghost: map[string]bool{}, Maps: map[string][]*Term{}}
	ex.resolveModList(env, c.Modifies, ms)
	return ms
}

func (ex *Exec) resolveModList(env *Env, list []*SExpr, ms *ModSet) {
	pre := *env
	pre.cur = env.old
	for _, m := range list {
		if m.Kind == "call" {
			if mg, ok := ex.specs.ModGroups[m.Name]; ok {
				if len(mg.Params) != len(m.Args) {
					sfail("modgroup %s expects %d arguments", m.Name, len(mg.Params))
				}
				vars := map[string]Value{}
				for i, p := range mg.Params {
					vars[p] = pre.eval(m.Args[i])
				}
				sub := env.with(vars)
				ex.resolveModList(sub, mg.Targets, ms)
				continue
			}
		}
		switch m.Kind {
		case "ident":
			if m.Name == "everything" {
				ms.All = true
				continue
			}
			sfail("bad modifies target %s", m)
		case "ghost":
			ms.Ghost[m.Name] = true
		case "gfield":
			base := pre.eval(m.Args[0])
			ms.Heap["#"+m.Name] = append(ms.Heap["#"+m.Name], identOf(base))
		case "field":
			base := pre.eval(m.Args[0])
			ex.modField(ms, &pre, base, m.Name)
		case "call":
			switch m.Name {
			case "mem", "memnew":
				// mem(s): region of slice s in the pre-state; memnew(s): region of s in the post-state (resolved after header havoc)
				if m.Name == "mem" {
					s := pre.eval(m.Args[0])
					elem := s.T.Underlying().(*types.Slice).Elem()
					ms.Mem = append(ms.Mem, memRegion{elem, s.Arr(), s.Off(), Add(s.Off(), s.Len())})
				} else {
					ms.MemNew = append(ms.MemNew, m.Args[0])
				}
			case "memcap": // whole capacity window of slice s (pre-state)
				s := pre.eval(m.Args[0])
				elem := s.T.Underlying().(*types.Slice).Elem()
				ms.Mem = append(ms.Mem, memRegion{elem, s.Arr(), s.Off(), Add(s.Off(), s.Cap())})
			case "memtail": // unused tail capacity [len,cap) of slice s (pre-state)
				s := pre.eval(m.Args[0])
				elem := s.T.Underlying().(*types.Slice).Elem()
				ms.Mem = append(ms.Mem, memRegion{elem, s.Arr(), Add(s.Off(), s.Len()), Add(s.Off(), s.Cap())})
			case "bufbytes": // content bytes of a bytes.Buffer from index lo on: bufbytes(buf, lo)
				b := pre.eval(m.Args[0])
				lo := Neg(IntB(pow2[64]))
				if len(m.Args) > 1 {
					lo = pre.intTerm(m.Args[1])
				}
				ms.Mem = append(ms.Mem, memRegion{tByte, bufArr(identOf(b)), lo, IntB(pow2[64])})
			case "chanstate": // open/closed state of a channel
				ch := pre.eval(m.Args[0])
				ms.Heap["#chanclosed"] = append(ms.Heap["#chanclosed"], ch.L[0])
			case "mapof":
				mv := pre.eval(m.Args[0])
				k := typeKey(mv.T)
				ms.Maps[k] = append(ms.Maps[k], mv.L[0])
			case "arrayof": // arrayof(ptr-to-array-field) e.g. arrayof(writer.putbuf)
				v := pre.eval(m.Args[0])
				at := v.T.Underlying().(*types.Array)
				ms.Mem = append(ms.Mem, memRegion{at.Elem(), v.L[0], Int(0), Int(at.Len())})
			default:
				sfail("bad modifies target %s", m)
			}
		default:
			sfail("bad modifies target %s", m)
		}
	}
}

// resolveMemNew evaluates memnew(s) targets in the current (post-header-havoc) state.
func (ex *Exec) resolveMemNew(env *Env, ms *ModSet) {
	for _, e := range ms.MemNew {
		s := env.eval(e)
		elem := s.T.Underlying().(*types.Slice).Elem()
		ms.Mem = append(ms.Mem, memRegion{elem, s.Arr(), s.Off(), Add(s.Off(), s.Len())})
	}
}

func (ex *Exec) modField(ms *ModSet, env *Env, base Value, name string) {
	pt, ok := base.T.Underlying().(*types.Pointer)
	if !ok {
		sfail("modifies: %s is not a pointer to struct", base.T)
	}
	stt, ok := pt.Elem().Underlying().(*types.Struct)
	if !ok {
		sfail("modifies: %s is not a pointer to struct", base.T)
	}
	if name == "*" {
		for _, l := range leavesOf(pt.Elem()) {
			n := heapName(pt.Elem(), l.Path)
			leafSortCache[n] = l.Sort
			ms.Heap[n] = append(ms.Heap[n], base.L[0])
		}
		return
	}
	obj, index, _ := types.LookupFieldOrMethod(base.T, true, env.pkgOrNil(base.T), name)
	fv, ok := obj.(*types.Var)
	if !ok {
		sfail("modifies: no field %s in %s", name, base.T)
	}
	// walk embedded path to the owning struct
	cur := base
	for _, ix := range index[:len(index)-1] {
		cur = ex.stepField(env.cur, cur, ix)
	}
	cpt, ok := cur.T.Underlying().(*types.Pointer)
	if !ok {
		sfail("modifies through embedded value struct not supported: %s", name)
	}
	_ = stt
	for _, l := range leavesOf(fv.Type()) {
		n := heapName(cpt.Elem(), "."+fv.Name()+l.Path)
		leafSortCache[n] = l.Sort
		ms.Heap[n] = append(ms.Heap[n], cur.L[0])
	}
}

type havocRec struct {
	heap  string // heap array name ("" for global ghost)
	ghost string
	v     *Term // the fresh variable
}

func (ex *Exec) applyHavoc(st *State, ms *ModSet) {
	if ms.All {
		ex.havocAll(st)
		return
	}
	for _, n := range sortedKeys(ms.Heap) {
		for _, obj := range ms.Heap[n] {
			sortS := SInt
			if cur, ok := st.Heap[n]; ok {
				sortS = elemSort(cur.Sort)
			} else if strings.HasPrefix(n, "#") {
				sortS = ex.specs.ghostSort(n[1:])
			} else {
				sortS = ex.leafSortByName(n)
			}
			fv := ex.freshVar("hv."+n, sortS)
			ex.havocLog = append(ex.havocLog, havocRec{heap: n, v: fv})
			st.Heap[n] = Store(st.heapArr(n, sortS), obj, fv)
			st.Dirty["H:"+n] = true
		}
	}
	for n := range ms.Ghost {
		fv := ex.freshVar("hv."+n, ex.specs.ghostSort(n))
		ex.havocLog = append(ex.havocLog, havocRec{ghost: n, v: fv})
		st.Ghost[n] = fv
		st.Dirty["G:"+n] = true
	}
	for _, r := range ms.Mem {
		ex.fresh++
		id := ex.fresh
		st.regionWrite(r.arr, r.lo, r.hi, r.elem, func(l Leaf, idx *Term) *Term {
			return UF(fmt.Sprintf("hvmem!%d%s", id, l.Path), l.Sort, idx)
		})
	}
	for tk, ids := range ms.Maps {
		for _, id := range ids {
			for n, cur := range st.Heap {
				if strings.HasPrefix(n, "mapdom:"+tk) || strings.HasPrefix(n, "mapval:"+tk) || n == "mapsize:"+tk {
					st.Heap[n] = Store(cur, id, ex.freshVar("hv."+n, elemSort(cur.Sort)))
					st.Dirty["H:"+n] = true
				}
			}
			// arrays not yet materialised are created lazily and unconstrained anyway
			for _, n := range []string{"mapdom:" + tk, "mapsize:" + tk} {
				if _, ok := st.Heap[n]; !ok {
					if strings.HasPrefix(n, "mapdom:") {
						cur := st.heapArrS(n, SArr2B)
						st.Heap[n] = Store(cur, id, ex.freshVar("hv."+n, SArrB))
					} else {
						cur := st.heapArr(n, SInt)
						st.Heap[n] = Store(cur, id, ex.freshVar("hv."+n, SInt))
					}
					st.Dirty["H:"+n] = true
				}
			}
		}
	}
}

var leafSortCache = map[string]string{}

func (ex *Exec) leafSortByName(n string) string {
	if s, ok := leafSortCache[n]; ok {
		return s
	}
	return SInt
}

// ---------- defers ----------

func (ex *Exec) runDefers(fr *Frame, ds []*deferRec, st *State, k func(*State)) {
	if len(ds) == 0 {
		k(st)
		return
	}
	d := ds[len(ds)-1]
	rest := ds[:len(ds)-1]
	ex.doDeferred(fr, d, st, func(st *State) {
		ex.runDefers(fr, rest, st, k)
	})
}

func (ex *Exec) doDeferred(fr *Frame, d *deferRec, st *State, k func(*State)) {
	common := d.common
	rt := common.Signature().Results()
	var resT types.Type = rt
	if rt.Len() == 1 {
		resT = rt.At(0).Type()
	}
	cont := func(st *State, _ Value) { k(st) }
	if b, ok := common.Value.(*ssa.Builtin); ok {
		ex.builtin(fr, st, nil, b, common, d.args)
		k(st)
		return
	}
	if common.IsInvoke() {
		args := append([]Value{d.fnval}, d.args...)
		key := "iface " + typeKey(common.Value.Type()) + "." + common.Method.Name()
		ex.callByKey(fr, key, nil, args, nil, resT, d.pos, nil, st, cont)
		return
	}
	if callee := common.StaticCallee(); callee != nil {
		var bindings []Value
		if d.fnval.Clo != nil {
			bindings = d.fnval.Clo.Bindings
		}
		ex.callByKey(fr, fnKeyOf(callee), callee, d.args, bindings, resT, d.pos, nil, st, cont)
		return
	}
	if d.fnval.Clo != nil {
		callee := d.fnval.Clo.Fn.(*ssa.Function)
		ex.callByKey(fr, fnKeyOf(callee), callee, d.args, d.fnval.Clo.Bindings, resT, d.pos, nil, st, cont)
		return
	}
	key := ""
	if n, ok := common.Value.Type().(*types.Named); ok {
		key = "callback " + typeKey(n)
	} else {
		if fk, ok := fieldKeyOf(common.Value); ok {
			// a function value stored in a struct field: keyed by the field, wherever it is called
			key = "callback " + fk
		} else {
			key = "callback " + fnKeyOf(fr.fn) + "." + ex.operandName(fr.fn, common.Value)
		}
	}
	args := append([]Value{d.fnval}, d.args...)
	ex.callByKey(fr, key, nil, args, nil, resT, d.pos, nil, st, cont)
}

// propagateHavocEqs: when a postcondition pins a havocked location to a term
// (hv == t at top level), store t instead of the fresh variable. Purely an
// optimisation keeping ghost/heap state concrete along straight-line builders.
func (ex *Exec) propagateHavocEqs(st *State, from int) {
	if len(ex.havocLog) == 0 {
		return
	}
	fresh := map[string]bool{}
	for _, h := range ex.havocLog {
		fresh[h.v.Name] = true
	}
	sub := map[string]*Term{}
	var scan func(t *Term)
	scan = func(t *Term) {
		switch t.Op {
		case "and":
			for _, a := range t.Args {
				scan(a)
			}
		case "=":
			l, r := t.Args[0], t.Args[1]
			if l.Op == "var" && fresh[l.Name] && !mentions(r, fresh) {
				if _, dup := sub[l.Name]; !dup {
					sub[l.Name] = r
				}
			} else if r.Op == "var" && fresh[r.Name] && !mentions(l, fresh) {
				if _, dup := sub[r.Name]; !dup {
					sub[r.Name] = l
				}
			}
		case "var":
			if t.Sort == SBool && fresh[t.Name] {
				sub[t.Name] = tTrue
			}
		case "not":
			if t.Args[0].Op == "var" && fresh[t.Args[0].Name] {
				sub[t.Args[0].Name] = tFalse
			}
		}
	}
	for _, t := range st.PC[from:] {
		scan(t)
	}
	if len(sub) == 0 {
		return
	}
	for _, h := range ex.havocLog {
		if _, ok := sub[h.v.Name]; !ok {
			continue
		}
		if h.heap != "" {
			st.Heap[h.heap] = Subst(st.Heap[h.heap], sub)
		} else {
			st.Ghost[h.ghost] = Subst(st.Ghost[h.ghost], sub)
		}
	}
	for i := from; i < len(st.PC); i++ {
		st.PC[i] = Subst(st.PC[i], sub)
	}
}

func mentions(t *Term, names map[string]bool) bool {
	if t.Op == "var" {
		return names[t.Name]
	}
	for _, a := range t.Args {
		if mentions(a, names) {
			return true
		}
	}
	return false
}

// checkCallsite: assertions the enclosing function's contract attaches to calls of key.
// Locals are resolved at the call site; the callee's arguments are visible as $name / $0..$n.
func (ex *Exec) checkCallsite(fr *Frame, key string, callee *ssa.Function, args []Value, site ssa.Instruction, st *State) {
	if ex.con == nil || site == nil || ex.recording != nil {
		return
	}
	// clauses apply at calls made by the function under contract and by the un-annotated
	// helpers inlined into it (an extracted helper keeps the obligation)
	cls := ex.con.Callsites[key]
	if len(cls) == 0 {
		return
	}
	env := ex.localEnv(fr, st, site)
	if !fr.top && ex.topFr != nil {
		// the call sits in a helper inlined into the function under contract: the clause may
		// also name parameters and locals of that function (as they are at the call that was
		// inlined)
		var topSite ssa.Instruction
		topFr := ex.topFr
		for f := fr; f != nil && !f.top; f = f.parent {
			if f.parent != nil && f.parent.top {
				topSite, topFr = f.site, f.parent // the top frame as it is on this path
			}
		}
		outer := ex.baseEnv(topFr, st)
		if topSite != nil && topSite.Block() != nil && topSite.Parent() == topFr.fn {
			outer = ex.localEnv(topFr, st, topSite)
		}
		for k, v := range outer.vars {
			if _, has := env.vars[k]; !has {
				env.vars[k] = v
			}
		}
	}
	for i, a := range args {
		env.vars[fmt.Sprintf("$%d", i)] = a
	}
	if callee != nil {
		for i, p := range callee.Params {
			if i < len(args) {
				env.vars["$"+p.Name()] = args[i]
			}
		}
		for old, news := range ex.aliasesOf(callee) {
			if _, has := env.vars["$"+old]; !has {
				for _, n := range news {
					if v, ok := env.vars["$"+n]; ok {
						env.vars["$"+old] = v
						break
					}
				}
			}
		}
	} else {
		var cc *Contract
		if c := ex.specs.Contracts[key]; c != nil {
			cc = c
		} else if c := ex.specs.Contracts["extern "+key]; c != nil {
			cc = c
		}
		if cc != nil {
			for i, p := range cc.Params {
				if i < len(args) {
					env.vars["$"+p] = args[i]
				}
			}
		}
	}
	for _, cl := range cls {
		g := tryBool(env, cl.Expr)
		if g == nil {
			continue // names a local that is not in scope at this call site
		}
		ex.clauseHit["callsite@"+key+"#"+cl.Label] = true
		ex.oblige(st, "callsite@"+key, cl.Label, cl.Props, g, site.Pos(), ex.fnKey)
		st.assume(g)
	}
}

// localEnv: parameters (name0 = entry value), and local variables resolved to the SSA value
// most recently referred to under that name on this path before the instruction at.
func (ex *Exec) localEnv(fr *Frame, st *State, at ssa.Instruction) *Env {
	env := ex.baseEnv(fr, st)
	for i, p := range fr.fn.Params {
		env.vars[p.Name()+"0"] = fr.args[i]
	}
	refs := ex.refsOf(fr.fn)
	atBlock := at.Block()
	atOrder := 0
	n := 0
	for _, b := range fr.fn.Blocks {
		for _, ins := range b.Instrs {
			n++
			if ins == at {
				atOrder = n
			}
		}
	}
	for name, rs := range refs {
		var best *debugRef
		for i := range rs {
			r := &rs[i]
			if r.block == atBlock {
				if r.order > atOrder {
					continue
				}
			} else if !r.block.Dominates(atBlock) {
				continue
			}
			if _, has := fr.vals[r.val]; !has {
				switch r.val.(type) {
				case *ssa.Parameter, *ssa.FreeVar, *ssa.Const:
				default:
					continue
				}
			}
			if best == nil || r.order > best.order {
				best = r
			}
		}
		if best == nil {
			continue
		}
		if v, ok := ex.refValue(fr, st, best, nil); ok {
			env.vars[name] = v
		}
	}
	// inside a loop body: $n = iterations completed before the current one (for code in an
	// inlined helper: of the loop around the call it was inlined at)
	if nv := ex.iterAt(fr, at); nv != nil {
		env.vars["$n"] = *nv
		if _, has := env.vars["$index"]; !has {
			env.vars["$index"] = Value{T: tInt, L: []*Term{Sub(nv.L[0], Int(1))}}
		}
	}
	ex.applyAliases(env, fr.fn)
	ex.applyBinds(env, fr, atBlock)
	return env
}
