package main

// Symbolic executor over go/ssa: path enumeration between cut points
// (function entry, loop headers, returns) generating proof obligations.

import (
	"fmt"
	"go/constant"
	"go/token"
	"go/types"
	"sort"
	"strings"

	"golang.org/x/tools/go/ssa"
)

type Obligation struct {
	Name   string
	Func   string
	Kind   string
	Label  string
	Props  []string
	Hyps   []*Term
	Goal   *Term
	Trace  []string
	Expect string // "unsat" (proof) or "sat" (cover)
	Pos    string
	Quant  bool
	Havocked bool // an external call without a specification was made on the path (everything modelled was havocked)
	Definite bool // the goal is literally false: reaching this point is the violation (no solver incompleteness involved)
	Batched bool
	Host   string // function under verification when the obligation arose in an inlined helper
	// results
	Status  string // discharged | failed | unknown | trivial
	Backend string
	TimeS   float64
	Model   string
	SMTSize int
	File    string
}

type deferRec struct {
	common *ssa.CallCommon
	args   []Value
	fnval  Value
	pos    token.Pos
}

type loopCtx struct {
	measure *Term
	unroll  bool // loop without a specification: unrolled up to unrollBound iterations (bounded, not a proof)
	iter    int
	start   *State // state at the start of the iteration (after the invariants were assumed)
}

type Frame struct {
	fn       *ssa.Function
	vals     map[ssa.Value]Value
	args     []Value
	bindings []Value
	defers   []*deferRec
	prev     *ssa.BasicBlock
	depth    int
	top      bool
	loops    map[*ssa.BasicBlock]*loopCtx
	ghostPar map[string]Value
	callStack []string
	lastRet  ssa.Instruction
	outerN   *Value // $n of the loop around the call site this frame was inlined at
	parent   *Frame          // the frame this one was inlined into
	site     ssa.Instruction // the call in parent it was inlined at
}

func (f *Frame) clone() *Frame {
	n := *f
	n.vals = make(map[ssa.Value]Value, len(f.vals))
	for k, v := range f.vals {
		n.vals[k] = v
	}
	n.defers = append([]*deferRec(nil), f.defers...)
	n.loops = make(map[*ssa.BasicBlock]*loopCtx, len(f.loops))
	for k, v := range f.loops {
		n.loops[k] = v
	}
	return &n
}

type WriteSet struct {
	Names map[string]bool
	Cells map[*Cell]bool
	All   bool
}

type Exec struct {
	prog   *ssa.Program
	specs  *SpecDB
	fn     *ssa.Function
	fnKey  string
	con    *Contract
	obls   []*Obligation
	fresh  int
	paths  int
	maxPaths int
	unsupported map[string]bool
	unknownExt  map[string]bool
	usedSpecs   map[string]bool
	inlined     map[string]bool
	quiet  int
	entry  *State
	pkgsByName map[string]*types.Package
	loopSets   map[*ssa.BasicBlock]*WriteSet
	recording  *WriteSet
	obNames    map[ssa.Instruction]string
	varRefs    map[*ssa.Function]map[string][]debugRef
	covers     map[string]bool
	coverN     map[string]int
	retCount   int
	noDecreases []string
	iterMaps    map[*Cell]Value
	named       map[string]*Term
	specLive    *State
	havocLog    []havocRec
	inTypeInv   bool
	clauseHit   map[string]bool
	aliasCache  map[*ssa.Function]map[string][]string
	topFr       *Frame
	pendingN    *Value
	pendingSite ssa.Instruction
	bounded     map[string]int // loops verified by bounded unrolling: "fn loop N" -> bound
	rebound     map[string]map[string][]string
}

type debugRef struct {
	val    ssa.Value
	isAddr bool
	block  *ssa.BasicBlock
	order  int
}

type abortPath struct{ why string }

func (ex *Exec) unsupp(f string, a ...interface{}) {
	msg := fmt.Sprintf(f, a...)
	ex.unsupported[msg] = true
	panic(abortPath{msg})
}

func (ex *Exec) freshVar(prefix, sort string) *Term {
	ex.fresh++
	return Var(fmt.Sprintf("%s!%d", prefix, ex.fresh), sort)
}

// freshValue creates a symbolic value of type t with its language-level invariants assumed.
func (ex *Exec) freshValue(st *State, t types.Type, prefix string) Value {
	ls := leavesOf(t)
	v := Value{T: t, L: make([]*Term, len(ls))}
	ex.fresh++
	id := ex.fresh
	for i, l := range ls {
		v.L[i] = Var(fmt.Sprintf("%s!%d%s", prefix, id, l.Path), l.Sort)
	}
	ex.assumeWF(st, v)
	return v
}

// assumeWF assumes machine ranges, slice well-formedness and "not newer than
// the allocation counter" for the leaves of v.
func (ex *Exec) assumeWF(st *State, v Value) {
	if v.T != nil && len(ex.specs.TypeInvs) > 0 && !ex.inTypeInv {
		if ti, ok := ex.specs.TypeInvs[typeKey(v.T)]; ok {
			ex.inTypeInv = true
			env := &Env{ex: ex, cur: st, old: st, live: st, vars: map[string]Value{ti.Var: v}, pkg: pkgOf(ex.fn)}
			func() {
				defer func() {
					ex.inTypeInv = false
					if r := recover(); r != nil {
						if se, ok := r.(specErr); ok {
							ex.unsupported["typeinv: "+se.msg] = true
							return
						}
						panic(r)
					}
				}()
				st.assume(env.boolTerm(ti.Expr))
			}()
		}
	}
	ls := leavesOf(v.T)
	for i, l := range ls {
		x := v.L[i]
		if x.Op == "int" {
			continue
		}
		switch l.Kind {
		case "int":
			if bits, signed, ok := intBits(l.Typ); ok {
				st.assume(InRange(x, bits, signed))
			}
		case "ptr", "map", "chan":
			st.assume(And(Le(Int(0), x), Le(x, st.Alloc)))
		case "func":
			st.assume(Le(x, st.Alloc))
		case "arr":
			st.assume(Le(x, st.Alloc))
			off, ln, cp := v.L[i+1], v.L[i+2], v.L[i+3]
			st.assume(And(Le(Int(0), off), Le(Int(0), ln), Le(ln, cp), Le(cp, IntB(pow2[62]))))
			st.assume(Implies(Eq(x, Int(0)), And(Eq(cp, Int(0)), Eq(off, Int(0)))))
		case "tag":
			st.assume(Le(Int(0), x))
			if n, ok := l.Typ.(*types.Named); ok {
				// a non-nil value of a named interface type implements it
				st.assume(Implies(Ne(x, Int(0)), UF("implements."+typeKey(n), SBool, x)))
				if inRepoType(n) {
					ex.implementsFacts(st, n)
				}
			}
			var isDec []*Term
			for _, pt := range ex.repoPtrTags() {
				isDec = append(isDec, Eq(x, Int(int64(pt))))
			}
			st.assume(Implies(Or(isDec...), Gt(v.L[i+1], Int(0))))
			st.assume(Le(v.L[i+1], st.Alloc))
			st.assume(Implies(Eq(x, Int(0)), Eq(v.L[i+1], Int(0))))
		case "str":
			st.assume(And(Le(Int(0), UF("slen", SInt, x)), Le(UF("slen", SInt, x), IntB(pow2[62]))))
		}
	}
}

func inRepoType(n *types.Named) bool {
	return n.Obj().Pkg() != nil && strings.HasPrefix(n.Obj().Pkg().Path(), "github.com/jeroenrinzema/psql-wire")
}

func (ex *Exec) newObj(st *State) *Term {
	o := Add(st.Alloc, Int(1))
	// keep the counter a simple term
	ex.fresh++
	c := Var(fmt.Sprintf("alloc!%d", ex.fresh), SInt)
	st.assume(Eq(c, o))
	st.Alloc = c
	return c
}

func (ex *Exec) bumpAlloc(st *State) {
	ex.fresh++
	c := Var(fmt.Sprintf("alloc!%d", ex.fresh), SInt)
	st.assume(Ge(c, st.Alloc))
	st.Alloc = c
}

func (ex *Exec) oblige(st *State, kind, label string, props []string, goal *Term, pos token.Pos, fnKey string) {
	if ex.quiet > 0 {
		return
	}
	name := fmt.Sprintf("%s/%s#%s", fnKey, kind, label)
	ob := &Obligation{Name: name, Func: fnKey, Host: ex.fnKey, Kind: kind, Label: label, Props: props, Goal: goal, Expect: "unsat", Havocked: st.Dirty["*"],
		Hyps: append([]*Term(nil), st.PC...), Trace: append([]string(nil), st.Trace...)}
	if pos.IsValid() {
		p := ex.prog.Fset.Position(pos)
		ob.Pos = fmt.Sprintf("%s:%d", p.Filename, p.Line)
	}
	ex.obls = append(ex.obls, ob)
}

func (ex *Exec) cover(st *State, label string) {
	if ex.quiet > 0 {
		return
	}
	if ex.coverN[label] >= 6 {
		return
	}
	ex.coverN[label]++
	ob := &Obligation{Name: fmt.Sprintf("%s/cover#%s", ex.fnKey, label), Func: ex.fnKey, Kind: "cover", Label: label, Goal: tFalse, Expect: "sat",
		Hyps: append([]*Term(nil), st.PC...), Trace: append([]string(nil), st.Trace...)}
	ex.obls = append(ex.obls, ob)
}

// ---------- values of SSA operands ----------

func (ex *Exec) val(fr *Frame, st *State, v ssa.Value) Value {
	switch x := v.(type) {
	case *ssa.Const:
		if x.Value == nil {
			return zeroValue(x.Type())
		}
		return constValue(x.Type(), x.Value)
	case *ssa.Global:
		return Value{T: x.Type(), Loc: &Loc{Kind: "global", Glob: x.Pkg.Pkg.Path() + "." + x.Name(), T: deref(x.Type())}}
	case *ssa.Function:
		return Value{T: x.Type(), L: []*Term{ex.funcID(x)}, Clo: &Closure{Fn: x}}
	case *ssa.Parameter:
		for i, p := range fr.fn.Params {
			if p == x {
				return fr.args[i]
			}
		}
	case *ssa.FreeVar:
		for i, p := range fr.fn.FreeVars {
			if p == x {
				return fr.bindings[i]
			}
		}
	case *ssa.Builtin:
		return Value{T: x.Type()}
	}
	if r, ok := fr.vals[v]; ok {
		return r
	}
	ex.unsupp("no value for %s (%T) in %s", v.Name(), v, fr.fn.Name())
	return Value{}
}

var funcIDs = map[*ssa.Function]int{}

func (ex *Exec) funcID(f *ssa.Function) *Term {
	id, ok := funcIDs[f]
	if !ok {
		id = len(funcIDs) + 1
		funcIDs[f] = id
	}
	// static function ids are negative and far from derived addresses' typical range
	return Int(int64(-1000000000 - id))
}

func (ex *Exec) loadGlobal(st *State, name string, t types.Type) Value {
	if c, ok := ex.globalConsts()[name]; ok {
		v := constValue(t, c)
		return v
	}
	if k, ok := ex.sentinelErrors()[name]; ok {
		// package-level error created by errors.New in init: non-nil, with an identity of its own,
		// its constant text, and nothing wrapped
		tag, val := Int(int64(typeTagByName("*errors.errorString"))), Int(int64(-2000000000-k))
		if st != nil {
			if txt, has := sentinelText[name]; has {
				st.assume(Eq(UF("errtext", SInt, tag, val), strConst(txt)))
			}
			st.assume(Eq(UF("unwrap.tag", SInt, tag, val), Int(0)))
			st.assume(Eq(UF("unwrap.val", SInt, tag, val), Int(0)))
		}
		return Value{T: t, L: []*Term{tag, val}}
	}
	ls := leavesOf(t)
	v := Value{T: t, L: make([]*Term, len(ls))}
	for i, l := range ls {
		v.L[i] = Var("g."+name+l.Path, l.Sort)
	}
	if isAddrOnly(t) {
		v.L = []*Term{Var("g."+name+".addr", SInt)}
	}
	return v
}

// ---------- locations ----------

func (ex *Exec) load(st *State, loc *Loc) Value {
	switch loc.Kind {
	case "obj":
		if isAddrOnly(loc.T) {
			ex.unsupp("load of array/opaque value of type %s", loc.T)
		}
		return st.loadObj(loc.Obj, loc.Struct, loc.Path, loc.T)
	case "elem":
		return st.loadElem(loc.Obj, loc.Idx, loc.T)
	case "elemfield":
		ls := leavesOf(loc.T)
		v := Value{T: loc.T, L: make([]*Term, len(ls))}
		for i, l := range ls {
			v.L[i] = st.mem(memName(loc.Struct, loc.Path+l.Path), l.Sort).read(loc.Obj, loc.Idx)
		}
		return v
	case "cell":
		if name, shared := st.Shared[loc.Cell]; shared {
			ex.oblige(st, "safety", "shared-after-go:"+name, []string{"C04", "C15"}, tFalse, token.NoPos, ex.fnKey)
			ex.obls[len(ex.obls)-1].Definite = true
		}
		if v, ok := st.Cells[loc.Cell]; ok {
			return v
		}
		return zeroValue(loc.T)
	case "global":
		return ex.loadGlobal(st, loc.Glob, loc.T)
	case "strview":
		inner := ex.load(st, &Loc{Kind: "cell", Cell: loc.Cell, T: types.NewSlice(tByte)})
		return ex.stringView(st, inner.Arr(), inner.Off(), inner.Len(), loc.T)
	case "strview-never":
		inner := ex.load(st, &Loc{Kind: "cell", Cell: loc.Cell, T: types.NewSlice(tByte)})
		id := UF("sview", SInt, inner.Arr(), inner.Off(), inner.Len())
		st.assume(Eq(UF("slen", SInt, id), inner.Len()))
		st.assume(Eq(UF("nulfree", SBool, id), UF("nulfree_region", SBool, inner.Arr(), inner.Off(), inner.Len())))
		st.assume(Eq(UF("sview.arr", SInt, id), inner.Arr()))
		st.assume(Eq(UF("sview.off", SInt, id), inner.Off()))
		// the C string starting at (arr, off): defined when the view is NUL-free and followed by a NUL
		term := st.mem(memName(tByte, ""), SInt).read(inner.Arr(), Add(inner.Off(), inner.Len()))
		st.assume(Implies(And(Eq(term, Int(0)), UF("nulfree_region", SBool, inner.Arr(), inner.Off(), inner.Len())), Eq(UF("cstr", SInt, inner.Arr(), inner.Off()), id)))
		return Value{T: loc.T, L: []*Term{id}}
	case "whole":
		// pointer to a whole heap struct object
		return ex.loadStruct(st, loc.Obj, loc.T)
	}
	ex.unsupp("load from location kind %s", loc.Kind)
	return Value{}
}

func (ex *Exec) loadStruct(st *State, obj *Term, t types.Type) Value {
	return st.loadObj(obj, t, "", t)
}

// stringView: the string that aliases n bytes of a byte array at (arr, off) without copying
// (the *(*string)(unsafe.Pointer(&b)) idiom and unsafe.String(unsafe.SliceData(b), len(b))).
func (ex *Exec) stringView(st *State, arr, off, n *Term, t types.Type) Value {
	id := UF("sview", SInt, arr, off, n)
	st.assume(Eq(UF("slen", SInt, id), n))
	st.assume(Eq(UF("nulfree", SBool, id), UF("nulfree_region", SBool, arr, off, n)))
	st.assume(Eq(UF("sview.arr", SInt, id), arr))
	st.assume(Eq(UF("sview.off", SInt, id), off))
	// the C string starting at (arr, off): defined when the view is NUL-free and followed by a NUL
	term := st.mem(memName(tByte, ""), SInt).read(arr, Add(off, n))
	st.assume(Implies(And(Eq(term, Int(0)), UF("nulfree_region", SBool, arr, off, n)), Eq(UF("cstr", SInt, arr, off), id)))
	return Value{T: t, L: []*Term{id}}
}

func (ex *Exec) store(st *State, loc *Loc, v Value) {
	v.T = loc.T
	switch loc.Kind {
	case "obj":
		if isAddrOnly(loc.T) {
			ex.unsupp("store of array/opaque value of type %s", loc.T)
		}
		st.storeObj(loc.Obj, loc.Struct, loc.Path, v)
	case "elem":
		st.storeElem(loc.Obj, loc.Idx, v)
	case "elemfield":
		st.dropEach(loc.Struct)
		for i, l := range leavesOf(loc.T) {
			n := memName(loc.Struct, loc.Path+l.Path)
			st.Mem[n] = st.mem(n, l.Sort).with(MemWrite{Arr: loc.Obj, Lo: loc.Idx, Val: v.L[i]})
			st.Dirty["M:"+n] = true
		}
	case "cell":
		if name, shared := st.Shared[loc.Cell]; shared {
			ex.oblige(st, "safety", "shared-after-go:"+name, []string{"C04", "C15"}, tFalse, token.NoPos, ex.fnKey)
			ex.obls[len(ex.obls)-1].Definite = true
		}
		st.Cells[loc.Cell] = v
		st.DirtyCells[loc.Cell] = true
	case "whole":
		st.storeObj(loc.Obj, loc.T, "", v)
	case "global":
		ex.unsupp("store to package-level variable %s", loc.Glob)
	default:
		ex.unsupp("store to location kind %s", loc.Kind)
	}
}

// pointer value -> location of pointee
func (ex *Exec) locOf(st *State, p Value, fr *Frame, pos token.Pos, role string) *Loc {
	if p.Loc != nil {
		return p.Loc
	}
	pt, ok := p.T.Underlying().(*types.Pointer)
	if !ok {
		ex.unsupp("dereference of non-pointer %s", p.T)
	}
	return &Loc{Kind: "whole", Obj: p.L[0], T: pt.Elem()}
}

// ---------- per-function static info ----------

type loopInfo struct {
	headers map[*ssa.BasicBlock]int // header -> ordinal in source order
	body    map[*ssa.BasicBlock]map[*ssa.BasicBlock]bool
}

var loopInfos = map[*ssa.Function]*loopInfo{}

func loopsOf(fn *ssa.Function) *loopInfo {
	if li, ok := loopInfos[fn]; ok {
		return li
	}
	li := &loopInfo{headers: map[*ssa.BasicBlock]int{}, body: map[*ssa.BasicBlock]map[*ssa.BasicBlock]bool{}}
	var hs []*ssa.BasicBlock
	for _, b := range fn.Blocks {
		for _, s := range b.Succs {
			if s.Dominates(b) {
				if _, ok := li.body[s]; !ok {
					li.body[s] = map[*ssa.BasicBlock]bool{s: true}
					hs = append(hs, s)
				}
				// natural loop of back edge b->s
				var stack []*ssa.BasicBlock
				if !li.body[s][b] {
					li.body[s][b] = true
					stack = append(stack, b)
				}
				for len(stack) > 0 {
					n := stack[len(stack)-1]
					stack = stack[:len(stack)-1]
					for _, p := range n.Preds {
						if !li.body[s][p] {
							li.body[s][p] = true
							stack = append(stack, p)
						}
					}
				}
			}
		}
	}
	// order by source position of the header's first positioned instruction, fallback block index
	sort.Slice(hs, func(i, j int) bool { return blockPos(hs[i]) < blockPos(hs[j]) })
	for i, h := range hs {
		li.headers[h] = i
	}
	loopInfos[fn] = li
	return li
}

func blockPos(b *ssa.BasicBlock) int {
	best := int(^uint(0) >> 1)
	seen := map[*ssa.BasicBlock]bool{}
	var walk func(b *ssa.BasicBlock, depth int)
	walk = func(b *ssa.BasicBlock, depth int) {
		if seen[b] || depth > 3 {
			return
		}
		seen[b] = true
		for _, ins := range b.Instrs {
			if p := ins.Pos(); p.IsValid() && int(p) < best {
				best = int(p)
			}
		}
		if best == int(^uint(0)>>1) {
			for _, s := range b.Succs {
				walk(s, depth+1)
			}
		}
	}
	walk(b, 0)
	return best*1000 + b.Index
}

func (ex *Exec) refsOf(fn *ssa.Function) map[string][]debugRef {
	if r, ok := ex.varRefs[fn]; ok {
		return r
	}
	r := map[string][]debugRef{}
	n := 0
	for _, b := range fn.Blocks {
		for _, ins := range b.Instrs {
			n++
			if d, ok := ins.(*ssa.DebugRef); ok {
				if obj := d.Object(); obj != nil {
					if vv, isVar := obj.(*types.Var); isVar && !vv.IsField() {
						r[obj.Name()] = append(r[obj.Name()], debugRef{val: d.X, isAddr: d.IsAddr, block: b, order: n})
					}
				}
			}
		}
	}
	ex.varRefs[fn] = r
	// names that disappeared since the baseline resolve to the names that took their place
	for old, news := range ex.aliasesOf(fn) {
		if len(r[old]) > 0 {
			continue
		}
		var merged []debugRef
		for _, nn := range news {
			merged = append(merged, r[nn]...)
		}
		sort.SliceStable(merged, func(i, j int) bool { return merged[i].order < merged[j].order })
		if len(merged) > 0 {
			r[old] = merged
		}
	}
	return r
}

// ---------- naming of safety obligations ----------

func (ex *Exec) operandName(fn *ssa.Function, v ssa.Value) string {
	switch x := v.(type) {
	case *ssa.Parameter:
		return x.Name()
	case *ssa.FreeVar:
		return x.Name()
	case *ssa.Global:
		return x.Name()
	case *ssa.FieldAddr:
		st := deref(x.X.Type()).Underlying().(*types.Struct)
		return ex.operandName(fn, x.X) + "." + st.Field(x.Field).Name()
	case *ssa.UnOp:
		if x.Op == token.MUL {
			return ex.operandName(fn, x.X)
		}
	case *ssa.Phi:
		if x.Comment != "" {
			return x.Comment
		}
	case *ssa.Extract:
		// fallthrough to debug names
	case *ssa.Const:
		return "const"
	}
	{
		// deterministic, and stable under renames: a baseline name wins over its replacement
		best := ""
		bestBase := false
		base := baseNames[fnKeyOf(fn)]
		isBase := func(n string) bool {
			if base == nil {
				return false
			}
			for _, l := range base.Locals {
				if l.Name == n {
					return true
				}
			}
			for _, l := range base.Params {
				if l == n {
					return true
				}
			}
			return false
		}
		for name, refs := range ex.refsOf(fn) {
			for _, r := range refs {
				if r.val == v && !r.isAddr {
					b := isBase(name)
					if best == "" || (b && !bestBase) || (b == bestBase && name < best) {
						best, bestBase = name, b
					}
					break
				}
			}
		}
		if best != "" {
			return best
		}
	}
	switch x := v.(type) {
	case *ssa.Call:
		if c := x.Common().StaticCallee(); c != nil {
			return "call:" + c.Name()
		}
		if x.Common().IsInvoke() {
			return "call:" + x.Common().Method.Name()
		}
	case *ssa.Slice:
		return ex.operandName(fn, x.X)
	case *ssa.ChangeType:
		return ex.operandName(fn, x.X)
	case *ssa.Convert:
		return ex.operandName(fn, x.X)
	case *ssa.IndexAddr:
		return ex.operandName(fn, x.X) + "[]"
	case *ssa.Alloc:
		if x.Comment != "" {
			return x.Comment
		}
	case *ssa.Extract:
		return ex.operandName(fn, x.Tuple) + fmt.Sprintf(".%d", x.Index)
	}
	return "tmp"
}

// safetyLabel returns a stable label "role:operand[#k]" for an instruction.
func (ex *Exec) safetyLabel(fn *ssa.Function, ins ssa.Instruction, role string, operand ssa.Value) string {
	key := fnKeyOf(fn)
	_ = key
	base := role + ":" + ex.operandName(fn, operand)
	// ordinal among instructions with the same base in function order
	k := 0
	for _, b := range fn.Blocks {
		for _, i2 := range b.Instrs {
			if i2 == ins {
				if k == 0 {
					return base
				}
				return fmt.Sprintf("%s#%d", base, k)
			}
			if r, o := safetyRoleOf(i2); r == role && o != nil && ex.operandName(fn, o) == ex.operandName(fn, operand) {
				k++
			}
		}
	}
	return base
}

func safetyRoleOf(ins ssa.Instruction) (string, ssa.Value) {
	switch x := ins.(type) {
	case *ssa.FieldAddr:
		return "nil", x.X
	case *ssa.IndexAddr:
		return "index", x.X
	case *ssa.Slice:
		return "slice", x.X
	case *ssa.MakeSlice:
		return "make", x.Len
	case *ssa.TypeAssert:
		if !x.CommaOk {
			return "assert", x.X
		}
	case *ssa.MapUpdate:
		return "nilmap", x.Map
	case *ssa.Lookup:
		return "index", x.X
	case *ssa.UnOp:
		if x.Op == token.MUL {
			return "nil", x.X
		}
	case *ssa.Store:
		return "nil", x.Addr
	}
	return "", nil
}

func fnKeyOf(fn *ssa.Function) string {
	if k, ok := keyOverride[fn]; ok {
		return k
	}
	s := fn.String()
	return shortenPaths(s)
}

var pathRepl = strings.NewReplacer(
	"github.com/jeroenrinzema/psql-wire/pkg/buffer", "buffer",
	"github.com/jeroenrinzema/psql-wire/pkg/types", "ptypes",
	"github.com/jeroenrinzema/psql-wire/errors", "perr",
	"github.com/jeroenrinzema/psql-wire/codes", "codes",
	"github.com/jeroenrinzema/psql-wire/pkg/mock", "mock",
	"github.com/jeroenrinzema/psql-wire", "wire",
	"github.com/jackc/pgx/v5/pgtype", "pgtype",
	"github.com/lib/pq/oid", "oid",
	"encoding/binary", "binary",
	"log/slog", "slog",
	"crypto/tls", "tls",
	"sync/atomic", "atomic",
)

func shortenPaths(s string) string { return pathRepl.Replace(s) }

func inRepo(fn *ssa.Function) bool {
	if fn.Pkg == nil && fn.Origin() != nil && fn.Origin() != fn {
		return inRepo(fn.Origin()) // instantiation of a generic function of the repository
	}
	if fn.Pkg == nil {
		if fn.Parent() != nil {
			return inRepo(fn.Parent())
		}
		return false
	}
	p := fn.Pkg.Pkg.Path()
	return p == "github.com/jeroenrinzema/psql-wire" || p == "github.com/jeroenrinzema/psql-wire/pkg/buffer" || p == "github.com/jeroenrinzema/psql-wire/errors"
}

func (ex *Exec) pkgByName(name string) *types.Package {
	return ex.pkgsByName[name]
}

func (ex *Exec) typeByName(name string) types.Type {
	// names are typeKey strings, e.g. "*perr.withHint"
	ptr := strings.HasPrefix(name, "*")
	n := strings.TrimPrefix(name, "*")
	parts := strings.SplitN(n, ".", 2)
	if len(parts) == 2 {
		if p := ex.pkgByName(parts[0]); p != nil {
			if obj := p.Scope().Lookup(parts[1]); obj != nil {
				t := obj.Type()
				if ptr {
					t = types.NewPointer(t)
				}
				return t
			}
		}
	}
	if n == "string" {
		return tString
	}
	return nil
}

func (ex *Exec) tagByName(name string) int {
	if t := ex.typeByName(name); t != nil {
		return typeTag(t)
	}
	if id, ok := typeTags[name]; ok {
		return id
	}
	return typeTagByName(name)
}

var globalConstCache map[string]constant.Value

// globalConsts: package-level variables initialised with a constant in their package's
// init function (and, by the stated assumption, never written afterwards).
func (ex *Exec) globalConsts() map[string]constant.Value {
	if globalConstCache != nil {
		return globalConstCache
	}
	globalConstCache = map[string]constant.Value{}
	for _, p := range ex.prog.AllPackages() {
		init := p.Func("init")
		if init == nil {
			continue
		}
		for _, b := range init.Blocks {
			for _, ins := range b.Instrs {
				if stv, ok := ins.(*ssa.Store); ok {
					g, isG := stv.Addr.(*ssa.Global)
					c, isC := stv.Val.(*ssa.Const)
					if isG && isC && c.Value != nil {
						switch c.Value.Kind() {
						case constant.String, constant.Int, constant.Bool:
							globalConstCache[g.Pkg.Pkg.Path()+"."+g.Name()] = c.Value
						}
					}
				}
			}
		}
	}
	return globalConstCache
}

var repoPtrTagCache []int

// repoPtrTags: dynamic types *T for the unexported error decorator structs; such values
// are only ever built by &T{...} inside the package, hence never nil inside an interface.
func (ex *Exec) repoPtrTags() []int {
	if repoPtrTagCache != nil {
		return repoPtrTagCache
	}
	repoPtrTagCache = []int{}
	for _, n := range []string{"*perr.withCode", "*perr.withSeverity", "*perr.withHint", "*perr.withDetail", "*perr.withSource", "*perr.withConstraint"} {
		if t := ex.typeByName(n); t != nil {
			repoPtrTagCache = append(repoPtrTagCache, typeTag(t))
		}
	}
	return repoPtrTagCache
}

var sentinelCache map[string]int
var sentinelText = map[string]string{}

// sentinelErrors: package-level variables assigned the result of errors.New in init.
func (ex *Exec) sentinelErrors() map[string]int {
	if sentinelCache != nil {
		return sentinelCache
	}
	sentinelCache = map[string]int{}
	var names []string
	for _, p := range ex.prog.AllPackages() {
		init := p.Func("init")
		if init == nil {
			continue
		}
		for _, b := range init.Blocks {
			for _, ins := range b.Instrs {
				stv, ok := ins.(*ssa.Store)
				if !ok {
					continue
				}
				g, isG := stv.Addr.(*ssa.Global)
				call, isCall := stv.Val.(*ssa.Call)
				if !isG || !isCall {
					continue
				}
				if callee := call.Common().StaticCallee(); callee != nil && callee.String() == "errors.New" {
					n := g.Pkg.Pkg.Path() + "." + g.Name()
					names = append(names, n)
					if c, ok := call.Common().Args[0].(*ssa.Const); ok && c.Value != nil && c.Value.Kind() == constant.String {
						sentinelText[n] = constant.StringVal(c.Value)
					}
				}
			}
		}
	}
	sort.Strings(names)
	for i, n := range names {
		sentinelCache[n] = i + 1
	}
	return sentinelCache
}
