package main

import (
	"bytes"
	"context"
	"crypto/sha256"
	"fmt"
	"os"
	"os/exec"
	"path/filepath"
	"strings"
	"sync"
	"time"
)

// stripForall skolemises universally quantified goals (positive positions).
func stripForall(g *Term, skolems *[]*Term) *Term {
	switch g.Op {
	case "forall":
		m := map[string]*Term{}
		for _, b := range g.Bound {
			sk := Var("sk."+b.Name, b.Sort)
			m[b.Name] = sk
			*skolems = append(*skolems, sk)
		}
		return stripForall(Subst(g.Args[0], m), skolems)
	case "and":
		args := make([]*Term, len(g.Args))
		for i, a := range g.Args {
			args[i] = stripForall(a, skolems)
		}
		return And(args...)
	case "=>":
		return Implies(g.Args[0], stripForall(g.Args[1], skolems))
	}
	return g
}

// instantiate assumed quantified hypotheses at the goal's skolem constants.
func instantiate(h *Term, skolems []*Term, out *[]*Term) {
	switch h.Op {
	case "and":
		for _, a := range h.Args {
			instantiate(a, skolems, out)
		}
	case "forall":
		if len(h.Bound) == 1 {
			for _, sk := range skolems {
				*out = append(*out, Subst(h.Args[0], map[string]*Term{h.Bound[0].Name: sk}))
			}
		} else if len(h.Bound) == 2 && len(skolems) >= 2 {
			for _, a := range skolems {
				for _, b := range skolems {
					*out = append(*out, Subst(h.Args[0], map[string]*Term{h.Bound[0].Name: a, h.Bound[1].Name: b}))
				}
			}
		}
	case "=>":
		var inner []*Term
		instantiate(h.Args[1], skolems, &inner)
		for _, i := range inner {
			*out = append(*out, Implies(h.Args[0], i))
		}
	}
}

func (ob *Obligation) smt(withModel bool, filter bool) string {
	return ob.smtOpt(withModel, filter, false)
}

// smtOpt: dropQuant omits quantified hypotheses (a weaker premise: unsat still proves the
// obligation; a model of the relaxed query is only a candidate counterexample).
func (ob *Obligation) smtOpt(withModel bool, filter bool, dropQuant bool) string {
	var skolems []*Term
	goal := stripForall(ob.Goal, &skolems)
	hyps := append([]*Term(nil), ob.Hyps...)
	if len(skolems) > 0 {
		var extra []*Term
		for _, h := range ob.Hyps {
			if hasQuant(h) {
				instantiate(h, skolems, &extra)
			}
		}
		hyps = append(hyps, extra...)
	}
	if dropQuant {
		var qf []*Term
		for _, h := range hyps {
			if !hasQuant(h) {
				qf = append(qf, h)
			}
		}
		hyps = qf
	}
	if filter {
		hyps = relevant(hyps, goal)
	}
	vars := map[string]string{}
	ufs := map[string]bool{}
	for _, h := range hyps {
		collectSyms(h, vars, ufs, map[string]bool{})
	}
	collectSyms(goal, vars, ufs, map[string]bool{})
	quant := hasQuant(goal)
	for _, h := range hyps {
		if hasQuant(h) {
			quant = true
		}
	}
	ob.Quant = quant
	var b strings.Builder
	if withModel {
		b.WriteString("(set-option :produce-models true)\n")
	}
	b.WriteString("(set-logic ALL)\n")
	// string literal axioms
	if ufs["slen"] || ufs["nulfree"] || ufs["blank"] {
		ufSigs["slen"] = "(Int) Int"
		ufSigs["nulfree"] = "(Int) Bool"
		ufs["slen"] = true
		ufs["nulfree"] = true
	}
	for _, n := range sortedKeys(vars) {
		if _, isUF := ufSigs[n]; isUF && ufs[n] {
			continue
		}
		fmt.Fprintf(&b, "(declare-const %s %s)\n", smtName(n), vars[n])
	}
	for _, n := range sortedKeys(ufs) {
		fmt.Fprintf(&b, "(declare-fun %s %s)\n", smtName(n), ufSigs[n])
	}
	if ufs["slen"] {
		for id, lit := range strLits {
			fmt.Fprintf(&b, "(assert (= (slen %d) %d))\n", id, len(lit))
			if strings.ContainsRune(lit, 0) {
				fmt.Fprintf(&b, "(assert (not (nulfree %d)))\n", id)
			} else {
				fmt.Fprintf(&b, "(assert (nulfree %d))\n", id)
			}
		}
	}
	for _, h := range hyps {
		fmt.Fprintf(&b, "(assert %s)\n", h.String())
	}
	fmt.Fprintf(&b, "(assert (not %s))\n", goal.String())
	b.WriteString("(check-sat)\n")
	if withModel {
		b.WriteString("(get-model)\n")
	}
	return b.String()
}

type solverSpec struct {
	name string
	args []string
}

var solvers = []solverSpec{
	{"z3-new", []string{"-smt2", "-T:%d"}},
	{"z3", []string{"-smt2", "-T:%d"}},
	{"cvc5", []string{"--lang=smt2", "--tlimit=%d000"}},
}

type solveResult struct {
	verdict string // unsat sat unknown timeout error
	backend string
	secs    float64
	output  string
}

func runSolver(ctx context.Context, s solverSpec, file string, timeoutS int) solveResult {
	var args []string
	for _, a := range s.args {
		if strings.Contains(a, "%d") {
			a = fmt.Sprintf(a, timeoutS)
		}
		args = append(args, a)
	}
	args = append(args, file)
	t0 := time.Now()
	cctx, cancel := context.WithTimeout(ctx, time.Duration(timeoutS+2)*time.Second)
	defer cancel()
	cmd := exec.CommandContext(cctx, s.name, args...)
	var out bytes.Buffer
	cmd.Stdout = &out
	cmd.Stderr = &out
	_ = cmd.Run()
	secs := time.Since(t0).Seconds()
	o := out.String()
	first := strings.TrimSpace(strings.SplitN(o, "\n", 2)[0])
	v := "error"
	switch first {
	case "unsat", "sat", "unknown", "timeout":
		v = first
	}
	if cctx.Err() != nil && v == "error" {
		v = "timeout"
	}
	return solveResult{verdict: v, backend: s.name, secs: secs, output: o}
}

// solve runs the portfolio: first decisive answer wins (quick); in thorough mode
// an `unsat` must be confirmed by a second solver when one answers in time.
func solve(file string, timeoutS int, agree bool) (solveResult, []solveResult) {
	ctx, cancel := context.WithCancel(context.Background())
	defer cancel()
	ch := make(chan solveResult, len(solvers))
	for _, s := range solvers {
		go func(s solverSpec) { ch <- runSolver(ctx, s, file, timeoutS) }(s)
	}
	var all []solveResult
	var best *solveResult
	decisive := 0
	for range solvers {
		r := <-ch
		all = append(all, r)
		if r.verdict == "unsat" || r.verdict == "sat" {
			decisive++
			if best == nil {
				rr := r
				best = &rr
			} else if best.verdict != r.verdict {
				return solveResult{verdict: "error", backend: "disagreement", output: best.backend + "=" + best.verdict + " " + r.backend + "=" + r.verdict}, all
			}
			if !agree || decisive >= 2 {
				return *best, all
			}
		}
	}
	if best != nil {
		return *best, all
	}
	// no decisive answer
	v := "unknown"
	for _, r := range all {
		if r.verdict == "timeout" {
			v = "timeout"
		}
	}
	outs := ""
	for _, r := range all {
		outs += r.backend + ": " + strings.TrimSpace(strings.SplitN(r.output, "\n", 2)[0]) + "; "
	}
	return solveResult{verdict: v, backend: "none", output: outs}, all
}

type solveCacheEntry struct {
	res solveResult
}

var solveMu sync.Mutex
var solveCache = map[string]solveResult{}

// batchDischarge first tries, per program point, the conjunction of all obligations
// generated there under the same hypotheses; when that single query is unsat every
// member is discharged. Members of batches that are not proved are solved individually.
func batchDischarge(obls []*Obligation, dir string, timeoutS int, agree bool, workers int) {
	groups := map[string][]*Obligation{}
	var order []string
	for _, ob := range obls {
		if ob.Status != "" || ob.Expect != "unsat" || ob.Goal.IsTrue() {
			continue
		}
		key := fmt.Sprintf("%s|%d|%s", ob.Func, len(ob.Hyps), strings.Join(ob.Trace, ">"))
		if _, ok := groups[key]; !ok {
			order = append(order, key)
		}
		groups[key] = append(groups[key], ob)
	}
	var batches []*Obligation
	var members [][]*Obligation
	for _, k := range order {
		g := groups[k]
		if len(g) < 3 {
			continue
		}
		var goals []*Term
		for _, ob := range g {
			goals = append(goals, ob.Goal)
		}
		b := &Obligation{Name: "batch", Func: g[0].Func, Kind: "batch", Goal: And(goals...), Expect: "unsat", Hyps: g[0].Hyps, Trace: g[0].Trace}
		batches = append(batches, b)
		members = append(members, g)
	}
	if len(batches) > 0 {
		discharge(batches, dir, timeoutS, agree, workers)
		for i, b := range batches {
			if b.Status != "discharged" {
				continue
			}
			for _, ob := range members[i] {
				ob.Status = "discharged"
				ob.Backend = b.Backend
				ob.TimeS = b.TimeS / float64(len(members[i]))
				ob.SMTSize = b.SMTSize
				ob.Batched = true
				ob.Hyps = nil
			}
		}
	}
	discharge(obls, dir, timeoutS, agree, workers)
}

func discharge(obls []*Obligation, dir string, timeoutS int, agree bool, workers int) {
	os.MkdirAll(dir, 0o755)
	var wg sync.WaitGroup
	sem := make(chan struct{}, workers)
	texts := make([]string, len(obls))
	fullTexts := make([]string, len(obls)) // unfiltered query, used when the filtered one is not proved
	qfTexts := make([]string, len(obls))   // quantified hypotheses dropped, used when the solvers give up
	for i, ob := range obls {
		if ob.Status != "" {
			continue
		}
		var skol []*Term
		if ob.Expect == "unsat" && stripForall(ob.Goal, &skol).IsTrue() {
			ob.Status = "discharged"
			ob.Backend = "simplifier"
			continue
		}
		texts[i] = ob.smt(true, true)
		if len(ob.Hyps) >= 40 {
			fullTexts[i] = ob.smt(true, false)
		}
		if ob.Quant && !hasQuant(ob.Goal) {
			qfTexts[i] = ob.smtOpt(true, true, true)
		}
		if ob.Kind != "batch" {
			ob.Hyps = nil // release memory
		}
	}
	firstOf := map[string]int{}
	dupOf := map[int]int{}
	for i, ob := range obls {
		if ob.Status != "" {
			continue
		}
		if j, ok := firstOf[texts[i]]; ok {
			dupOf[i] = j
			continue
		}
		firstOf[texts[i]] = i
	}
	defer func() {
		for i, j := range dupOf {
			src := obls[j]
			ob := obls[i]
			ob.Status, ob.Backend, ob.Model, ob.File, ob.SMTSize = src.Status, src.Backend, src.Model, src.File, src.SMTSize
		}
	}()
	for i, ob := range obls {
		if ob.Status != "" {
			continue
		}
		if _, isDup := dupOf[i]; isDup {
			continue
		}
		wg.Add(1)
		sem <- struct{}{}
		go func(i int, ob *Obligation) {
			defer wg.Done()
			defer func() { <-sem }()
			text := texts[i]
			ob.SMTSize = len(text)
			h := fmt.Sprintf("%x", sha256.Sum256([]byte(text)))[:16]
			solveMu.Lock()
			cached, ok := solveCache[h]
			solveMu.Unlock()
			var r solveResult
			file := filepath.Join(dir, fmt.Sprintf("o%05d_%s.smt2", i, h))
			if ok {
				r = cached
			} else {
				if len(text) > 8_000_000 {
					big := ""
					for _, ln := range strings.Split(text, "\n") {
						if len(ln) > 100000 {
							big += fmt.Sprintf("[%d bytes: %s ...] ", len(ln), ln[:300])
						}
					}
					r = solveResult{verdict: "unknown", backend: "none", output: "VC too large " + big}
				} else {
					proved := false
					var relaxed *solveResult
					if ob.Expect == "unsat" && qfTexts[i] != "" {
						// quantified premise: first the quantifier-free relaxation (a weaker premise,
						// so unsat is a proof; sat is only a candidate counterexample)
						os.WriteFile(file, []byte(qfTexts[i]), 0o644)
						r0, _ := solve(file, timeoutS, agree)
						if r0.verdict == "unsat" {
							r = r0
							r.backend += "(qf-relaxed)"
							proved = true
						} else if r0.verdict == "sat" {
							rr := r0
							relaxed = &rr
						}
					}
					if !proved && ob.Kind == "batch" && relaxed != nil {
						// some member probably fails: let the members be decided one by one
						r = solveResult{verdict: "unknown", backend: "none", output: "batch not proved"}
						proved = true
					}
					if !proved {
						tmo := timeoutS
						if relaxed != nil && tmo > 4 {
							tmo = 4 // a proof by quantifier instantiation is fast or does not come at all
						}
						os.WriteFile(file, []byte(text), 0o644)
						r, _ = solve(file, tmo, agree && ob.Expect == "unsat")
						if ob.Expect == "unsat" && r.verdict != "unsat" && fullTexts[i] != "" && fullTexts[i] != text {
							// the cone-of-influence filter may have dropped an inconsistency of the path
							// condition (infeasible path): decide on the full hypothesis set
							os.WriteFile(file, []byte(fullTexts[i]), 0o644)
							r, _ = solve(file, tmo, agree)
						}
						if ob.Expect == "unsat" && r.verdict != "unsat" && r.verdict != "sat" && relaxed != nil {
							r = *relaxed
							r.backend += "(qf-relaxed)"
						}
					}
				}
				solveMu.Lock()
				solveCache[h] = r
				solveMu.Unlock()
			}
			ob.File = file
			ob.Backend = r.backend
			ob.TimeS = r.secs
			switch {
			case ob.Expect == "unsat" && r.verdict == "unsat":
				ob.Status = "discharged"
			case ob.Expect == "unsat" && r.verdict == "sat":
				ob.Status = "failed"
				ob.Model = r.output
			case ob.Expect == "sat" && r.verdict == "sat":
				ob.Status = "discharged"
			case ob.Expect == "sat" && r.verdict == "unsat":
				ob.Status = "failed" // vacuous
			default:
				ob.Status = "unknown"
				ob.Model = r.output
			}
			if ob.Status == "discharged" {
				os.Remove(file)
			}
		}(i, ob)
	}
	wg.Wait()
}

// relevant keeps the hypotheses connected to the goal through shared variables
// (cone of influence). Dropping hypotheses only weakens the premise, so a proof
// found this way is a proof of the original obligation.
func relevant(hyps []*Term, goal *Term) []*Term {
	if len(hyps) < 40 {
		return hyps
	}
	type info struct {
		vars map[string]string
	}
	infos := make([]info, len(hyps))
	for i, h := range hyps {
		v := map[string]string{}
		collectSyms(h, v, map[string]bool{}, map[string]bool{})
		infos[i] = info{v}
	}
	reach := map[string]string{}
	collectSyms(goal, reach, map[string]bool{}, map[string]bool{})
	keep := make([]bool, len(hyps))
	for i := range hyps {
		if len(infos[i].vars) == 0 {
			keep[i] = true
		}
	}
	changed := true
	for changed {
		changed = false
		for i := range hyps {
			if keep[i] {
				continue
			}
			hit := false
			for v := range infos[i].vars {
				if _, ok := reach[v]; ok {
					hit = true
					break
				}
			}
			if hit {
				keep[i] = true
				changed = true
				for v, s := range infos[i].vars {
					reach[v] = s
				}
			}
		}
	}
	var out []*Term
	for i, h := range hyps {
		if keep[i] {
			out = append(out, h)
		}
	}
	return out
}
