package main

import (
	"fmt"
	"go/constant"
	"go/token"
	"go/types"
	"sort"
	"strings"

	"golang.org/x/tools/go/ssa"
)

// ---------- loops ----------

// loopEnv builds the environment in which a loop's invariants are evaluated.
func (ex *Exec) loopEnv(fr *Frame, st *State, h *ssa.BasicBlock, phiVals map[*ssa.Phi]Value) *Env {
	env := ex.baseEnv(fr, st)
	refs := ex.refsOf(fr.fn)
	for name, rs := range refs {
		var best *debugRef
		var bestDef *ssa.BasicBlock
		bestOrder := -1
		for i := range rs {
			r := &rs[i]
			var defBlock *ssa.BasicBlock
			defOrder := 0
			if ins, ok := r.val.(ssa.Instruction); ok {
				defBlock = ins.Block()
				defOrder = ex.instrOrder(fr.fn, ins)
			}
			if phi, ok := r.val.(*ssa.Phi); ok && phi.Block() == h {
				best = r
				break
			}
			if defBlock != nil && (!defBlock.Dominates(h) || defBlock == h) {
				continue
			}
			// prefer the most recently defined value that is available at the header
			switch {
			case best == nil:
			case defBlock == nil:
				continue // a parameter never beats a later definition
			case bestDef == nil:
			case defOrder > bestOrder:
			default:
				continue
			}
			best, bestDef, bestOrder = r, defBlock, defOrder
		}
		if best == nil {
			continue
		}
		if v, ok := ex.refValue(fr, st, best, phiVals); ok {
			env.vars[name] = v
		}
	}
	// map iteration: number of entries visited so far
	for v, val := range fr.vals {
		if _, ok := v.(*ssa.Range); ok && val.Loc != nil && val.Loc.Kind == "cell" {
			if cv, has := st.Cells[val.Loc.Cell]; has {
				env.vars["$visited"] = cv
			}
		}
	}
	for p, v := range phiVals {
		vv := v
		vv.T = p.Type()
		if p.Comment != "" {
			env.vars[p.Comment] = vv
			if p.Comment == "rangeindex" || p.Comment == "rangeint.iter" {
				env.vars["$index"] = vv
			}
		}
	}
	// $n: number of completed iterations, independent of the loop's syntactic form
	//   range over a slice/array/string : rangeindex + 1
	//   range over an integer           : the iteration variable
	//   range over a map                : entries visited
	//   counting loop (x := c; ...; x++): x - c for the induction variable of the header
	if _, has := env.vars["$n"]; !has {
		if v, ok := env.vars["$visited"]; ok {
			env.vars["$n"] = v
		}
	}
	if _, has := env.vars["$n"]; !has {
		if nv, ok := iterCount(h, func(p *ssa.Phi) (Value, bool) { v, ok := phiVals[p]; return v, ok }); ok {
			env.vars["$n"] = nv
		}
	}
	if nv, ok := env.vars["$n"]; ok {
		if _, has := env.vars["$index"]; !has {
			env.vars["$index"] = Value{T: tInt, L: []*Term{Sub(nv.L[0], Int(1))}}
		}
	}
	ex.applyAliases(env, fr.fn)
	ex.applyBinds(env, fr, h)
	return env
}

// iterCount: the number of completed iterations of the loop with header h, from its header phis.
func iterCount(h *ssa.BasicBlock, phiOf func(*ssa.Phi) (Value, bool)) (Value, bool) {
	var cands []Value
	var condCands []Value
	for _, ins := range h.Instrs {
		p, isPhi := ins.(*ssa.Phi)
		if !isPhi {
			break
		}
		v, ok := phiOf(p)
		if !ok || len(v.L) != 1 {
			continue
		}
		if _, _, isInt := intBits(p.Type()); !isInt {
			continue
		}
		switch p.Comment {
		case "rangeindex":
			return Value{T: tInt, L: []*Term{Add(v.L[0], Int(1))}}, true
		case "rangeint.iter":
			return Value{T: tInt, L: []*Term{v.L[0]}}, true
		}
		start, step := int64(0), false
		okStart := false
		for _, e := range p.Edges {
			switch x := e.(type) {
			case *ssa.Const:
				if x.Value != nil && x.Value.Kind() == constant.Int {
					if c, exact := constant.Int64Val(x.Value); exact {
						start, okStart = c, true
					}
				}
			case *ssa.BinOp:
				if x.Op == token.ADD {
					if c, isC := x.Y.(*ssa.Const); isC && x.X == ssa.Value(p) && c.Value != nil && c.Value.Kind() == constant.Int {
						if cv, exact := constant.Int64Val(c.Value); exact && cv == 1 {
							step = true
						}
					}
				}
			}
		}
		if okStart && step && len(p.Edges) == 2 {
			nv := Value{T: tInt, L: []*Term{Sub(v.L[0], Int(start))}}
			cands = append(cands, nv)
			if ifi, isIf := h.Instrs[len(h.Instrs)-1].(*ssa.If); isIf {
				if b, isB := ifi.Cond.(*ssa.BinOp); isB && (stripConv(b.X) == ssa.Value(p) || stripConv(b.Y) == ssa.Value(p)) {
					condCands = append(condCands, nv)
				}
			}
		}
	}
	switch {
	case len(condCands) == 1:
		return condCands[0], true
	case len(cands) == 1:
		return cands[0], true
	}
	return Value{}, false
}

func stripConv(v ssa.Value) ssa.Value {
	for {
		switch x := v.(type) {
		case *ssa.Convert:
			v = x.X
		case *ssa.ChangeType:
			v = x.X
		default:
			return v
		}
	}
}

func (ex *Exec) refValue(fr *Frame, st *State, r *debugRef, phiVals map[*ssa.Phi]Value) (v Value, ok bool) {
	defer func() {
		if rec := recover(); rec != nil {
			ok = false
		}
	}()
	if phi, isPhi := r.val.(*ssa.Phi); isPhi {
		if pv, has := phiVals[phi]; has {
			return pv, true
		}
	}
	switch r.val.(type) {
	case *ssa.Parameter, *ssa.FreeVar, *ssa.Const:
	default:
		if _, has := fr.vals[r.val]; !has {
			return Value{}, false
		}
	}
	val := ex.val(fr, st, r.val)
	if r.isAddr {
		if val.Loc == nil {
			return Value{}, false
		}
		return ex.load(st, val.Loc), true
	}
	return val, true
}

// baseEnv: parameters, free variables and ghost parameters of the frame's function.
func (ex *Exec) baseEnv(fr *Frame, st *State) *Env {
	env := &Env{ex: ex, cur: st, old: ex.entry, live: st, vars: map[string]Value{}}
	if fr.fn.Pkg != nil {
		env.pkg = fr.fn.Pkg.Pkg
	} else if fr.fn.Parent() != nil && fr.fn.Parent().Pkg != nil {
		env.pkg = fr.fn.Parent().Pkg.Pkg
	}
	for i, p := range fr.fn.Params {
		env.vars[p.Name()] = fr.args[i]
		env.vars[p.Name()+"0"] = fr.args[i]
	}
	for i, p := range fr.fn.FreeVars {
		b := fr.bindings[i]
		if b.Loc != nil && b.Loc.Kind == "cell" {
			if cv, ok := st.Cells[b.Loc.Cell]; ok {
				env.vars[p.Name()] = cv
				continue
			}
		}
		env.vars[p.Name()] = b
	}
	for g, v := range fr.ghostPar {
		env.vars[g] = v
	}
	ex.applyAliases(env, fr.fn)
	return env
}

const unrollBound = 4

// loopHeader handles arrival at loop header h. Returns true when the path ends here.
func (ex *Exec) loopHeader(fr *Frame, h *ssa.BasicBlock, ord int, st *State, phiVals map[*ssa.Phi]Value, k retK) bool {
	var spec *LoopSpec
	if c := ex.specs.Contracts[fnKeyOf(fr.fn)]; c != nil {
		if so, ok := ex.matchLoops(fr.fn, c).specOf[ord]; ok {
			spec = c.Loops[so]
			ord = so // obligations are named after the specification block
		}
	}
	fk := fnKeyOf(fr.fn)
	if spec == nil && ex.con != nil && ex.recording == nil {
		// A loop the contracts say nothing about (new code): no invariant to check it against.
		// It is unrolled up to unrollBound iterations and longer runs are cut - a bounded
		// stand-in, reported as such and never counted as a proof. Refutations found within the
		// bound are real paths of the code.
		li := loopsOf(fr.fn)
		lc, active := fr.loops[h]
		back := active && lc.unroll && fr.prev != nil && li.body[h][fr.prev]
		next := &loopCtx{unroll: true}
		if back {
			// the bound holds per loop and for the path as a whole: several unrolled loops in
			// one function (or nested ones) share the budget, so the number of paths stays that
			// of a single unrolled loop
			if lc.iter >= unrollBound || st.Unrolled >= unrollBound {
				if ex.bounded == nil {
					ex.bounded = map[string]int{}
				}
				ex.bounded[fmt.Sprintf("%s loop %d", fk, ord)] = unrollBound
				return true
			}
			next.iter = lc.iter + 1
			st.Unrolled++
		}
		fr.loops[h] = next
		for p, v := range phiVals {
			v.T = p.Type()
			fr.vals[p] = v
		}
		if ex.bounded == nil {
			ex.bounded = map[string]int{}
		}
		if _, seen := ex.bounded[fmt.Sprintf("%s loop %d", fk, ord)]; !seen {
			ex.bounded[fmt.Sprintf("%s loop %d", fk, ord)] = 0
		}
		return false
	}
	if spec == nil {
		spec = &LoopSpec{}
	}
	if lc, active := fr.loops[h]; active {
		// back edge: invariant preservation and measure
		if ex.recording != nil {
			for n := range st.Dirty {
				ex.recording.Names[n] = true
			}
			for c := range st.DirtyCells {
				ex.recording.Cells[c] = true
			}
			return true
		}
		env := ex.loopEnv(fr, st, h, phiVals)
		for _, inv := range spec.Invariants {
			ex.oblige(st, "inv-step", fmt.Sprintf("loop%d:%s", ord, inv.Label), inv.Props, env.boolTerm(inv.Expr), h.Instrs[0].Pos(), fk)
		}
		for _, ft := range ex.loopFrame(fr, st, h) {
			ex.oblige(st, "inv-step", fmt.Sprintf("loop%d:frame:%s", ord, ft.label), nil2props(ex.con), ft.t, h.Instrs[0].Pos(), fk)
		}
		if spec.Decreases != nil {
			m := env.intTerm(spec.Decreases)
			ex.oblige(st, "decreases", fmt.Sprintf("loop%d", ord), []string{"C04"}, And(Lt(m, lc.measure), Ge(lc.measure, Int(0))), h.Instrs[0].Pos(), fk)
		}
		if len(spec.Steps) > 0 && fr.prev != nil && len(fr.prev.Instrs) > 0 && lc.start != nil {
			at := fr.prev.Instrs[len(fr.prev.Instrs)-1]
			for _, sc := range spec.Steps {
				func() {
					defer func() {
						if r := recover(); r != nil {
							if _, ok := r.(specErr); ok {
								return // names a local that is not defined on this path through the body
							}
							panic(r)
						}
					}()
					senv := ex.localEnv(fr, st, at)
					senv.old = lc.start
					g := senv.boolTerm(sc.Expr)
					ex.clauseHit[fmt.Sprintf("step@loop%d#%s", ord, sc.Label)] = true
					ex.oblige(st, "step", fmt.Sprintf("loop%d:%s", ord, sc.Label), sc.Props, g, at.Pos(), fk)
				}()
			}
		}
		return true
	}
	// loop entry
	if ex.recording == nil {
		env := ex.loopEnv(fr, st, h, phiVals)
		for _, inv := range spec.Invariants {
			ex.oblige(st, "inv-entry", fmt.Sprintf("loop%d:%s", ord, inv.Label), inv.Props, env.boolTerm(inv.Expr), h.Instrs[0].Pos(), fk)
		}
	}
	ws := ex.loopWriteSet(fr, h, st, phiVals)
	// havoc
	ex.havocSet(st, ws)
	newPhis := map[*ssa.Phi]Value{}
	for p := range phiVals {
		nv := ex.freshValue(st, p.Type(), "phi."+p.Comment)
		newPhis[p] = nv
		fr.vals[p] = nv
	}
	env := ex.loopEnv(fr, st, h, newPhis)
	if ex.recording == nil {
		env.assuming = true
		for _, inv := range spec.Invariants {
			st.assume(env.boolTerm(inv.Expr))
		}
		env.assuming = false
		for _, ft := range ex.loopFrame(fr, st, h) {
			st.assume(ft.t)
		}
	}
	lc := &loopCtx{}
	if spec.Decreases != nil && ex.recording == nil {
		lc.measure = env.intTerm(spec.Decreases)
	} else if ex.recording == nil && ex.quiet == 0 {
		ex.noDecreases = append(ex.noDecreases, fmt.Sprintf("%s loop %d", fk, ord))
	}
	if len(spec.Steps) > 0 && ex.recording == nil {
		lc.start = st.clone()
	}
	fr.loops[h] = lc
	st.Trace = append(st.Trace, fmt.Sprintf("loop%d", ord))
	return false
}

func (ex *Exec) havocSet(st *State, ws *WriteSet) {
	if ws.All {
		ex.havocAll(st)
		st.Each = nil
	}
	var keep []*EachFact
	for _, f := range st.Each {
		dropped := false
		for n := range ws.Names {
			if strings.HasPrefix(n, "M:[]"+f.ElemKey) {
				dropped = true
			}
		}
		if !dropped {
			keep = append(keep, f)
		}
	}
	st.Each = keep
	for _, n := range sortedKeys(ws.Names) {
		switch {
		case strings.HasPrefix(n, "H:"):
			name := n[2:]
			if cur, ok := st.Heap[name]; ok {
				st.Heap[name] = ex.freshVar("lh."+name, cur.Sort)
			}
		case strings.HasPrefix(n, "M:"):
			name := n[2:]
			if m, ok := st.Mem[name]; ok {
				as := SArr2I
				if m.Sort == SBool {
					as = SArr2B
				}
				st.Mem[name] = &MemLog{Base: ex.freshVar("lh."+name, as), Sort: m.Sort}
			}
		case strings.HasPrefix(n, "G:"):
			name := n[2:]
			if cur, ok := st.Ghost[name]; ok {
				st.Ghost[name] = ex.freshVar("lh."+name, cur.Sort)
			}
		}
	}
	for c := range ws.Cells {
		if cur, ok := st.Cells[c]; ok {
			if cur.Clo != nil || cur.Loc != nil {
				continue
			}
			st.Cells[c] = ex.freshValue(st, cur.T, "lh."+c.Name)
		}
	}
	ex.bumpAlloc(st)
}

func nil2props(c *Contract) []string {
	if c == nil {
		return nil
	}
	return c.Props
}

// loopFrame: automatically generated frame invariants of a loop in the function under
// verification: what the loop may write but the contract's modifies clause does not
// name is as on function entry (witness form, same witnesses as the final frame check).
func (ex *Exec) loopFrame(fr *Frame, st *State, h *ssa.BasicBlock) []frameTerm {
	if !fr.top || ex.con == nil || ex.recording != nil {
		return nil
	}
	ws := ex.loopSets[h]
	if ws == nil || ws.All {
		return nil
	}
	env := ex.baseEnv(fr, ex.entry)
	env.old = ex.entry
	env.live = st
	c := *ex.con
	ms := ex.resolveModifies(env, &c)
	if ms.All {
		return nil
	}
	return ex.frameTerms(st, ms, sortedKeys(ws.Names))
}

// loopWriteSet: run the loop body once in record mode from a fully havocked state.
func (ex *Exec) loopWriteSet(fr *Frame, h *ssa.BasicBlock, st *State, phiVals map[*ssa.Phi]Value) *WriteSet {
	if ws, ok := ex.loopSets[h]; ok {
		return ws
	}
	ws := &WriteSet{Names: map[string]bool{}, Cells: map[*Cell]bool{}}
	ex.loopSets[h] = ws
	if ex.recording != nil {
		// nested recording: conservatively merge into the outer set as well
	}
	saved := ex.recording
	ex.recording = ws
	ex.quiet++
	st2 := st.clone()
	st2.PC = nil
	st2.Dirty = map[string]bool{}
	st2.DirtyCells = map[*Cell]bool{}
	// full havoc of the shapes known so far
	for n, t := range st2.Heap {
		st2.Heap[n] = ex.freshVar("rec."+n, t.Sort)
	}
	for n, m := range st2.Mem {
		as := SArr2I
		if m.Sort == SBool {
			as = SArr2B
		}
		st2.Mem[n] = &MemLog{Base: ex.freshVar("rec."+n, as), Sort: m.Sort}
	}
	for n, t := range st2.Ghost {
		st2.Ghost[n] = ex.freshVar("rec."+n, t.Sort)
	}
	for c, cur := range st2.Cells {
		if cur.Clo != nil || cur.Loc != nil {
			continue
		}
		st2.Cells[c] = ex.freshValue(st2, cur.T, "rec."+c.Name)
	}
	fr2 := fr.clone()
	for p := range phiVals {
		fr2.vals[p] = ex.freshValue(st2, p.Type(), "rec.phi")
	}
	fr2.loops[h] = &loopCtx{}
	savedPaths := ex.paths
	ex.tryPath(func() {
		ex.execFrom(fr2, h, 0, st2, func(st *State, _ Value) {
			// paths leaving through return: writes before return are not loop-carried,
			// but record them anyway (harmless over-approximation)
			for n := range st.Dirty {
				ws.Names[n] = true
			}
			for c := range st.DirtyCells {
				ws.Cells[c] = true
			}
		})
	})
	ex.paths = savedPaths
	if ws.Names["*"] {
		ws.All = true
	}
	ex.quiet--
	ex.recording = saved
	if saved != nil {
		for n := range ws.Names {
			saved.Names[n] = true
		}
		for c := range ws.Cells {
			saved.Cells[c] = true
		}
	}
	return ws
}

// ---------- top level ----------

type FuncReport struct {
	Key         string
	HasContract bool
	Trusted     bool
	Obls        []*Obligation
	Unsupported []string
	UnknownExt  []string
	UsedSpecs   []string
	Inlined     []string
	Paths       int
	NoDecreases []string
	Bounded     map[string]int
	Returns     int
	Skipped     string
	Dependency  bool // verified because a function of the property relies on its contract
}

func (ex *Exec) verifyFunction(fn *ssa.Function) (rep *FuncReport) {
	key := fnKeyOf(fn)
	ex.fn = fn
	ex.fnKey = key
	ex.con = ex.specs.Contracts[key]
	ex.obls = nil
	ex.paths = 0
	ex.unsupported = map[string]bool{}
	ex.unknownExt = map[string]bool{}
	ex.usedSpecs = map[string]bool{}
	ex.inlined = map[string]bool{}
	ex.loopSets = map[*ssa.BasicBlock]*WriteSet{}
	ex.covers = map[string]bool{}
	ex.clauseHit = map[string]bool{}
	ex.coverN = map[string]int{}
	ex.noDecreases = nil
	ex.bounded = nil
	ex.retCount = 0
	ex.iterMaps = map[*Cell]Value{}
	ex.named = map[string]*Term{}
	rep = &FuncReport{Key: key, HasContract: ex.con != nil}
	defer func() {
		if r := recover(); r != nil {
			switch e := r.(type) {
			case abortPath:
				ex.unsupported[e.why] = true
			case specErr:
				ex.unsupported["spec: "+e.msg] = true
			default:
				panic(r)
			}
		}
		// vacuity guard: every atreturn / callsite clause must have been in scope somewhere
		if ex.con != nil && !ex.con.Trusted {
			for _, e := range ex.con.AtReturn {
				if !ex.clauseHit["atreturn#"+e.Label] {
					ex.unsupported["vacuous: atreturn clause ["+e.Label+"] was never in scope at a return"] = true
				}
			}
			for ord, ls := range ex.con.Loops {
				for _, e := range ls.Steps {
					if !ex.clauseHit[fmt.Sprintf("step@loop%d#%s", ord, e.Label)] {
						ex.unsupported[fmt.Sprintf("vacuous: step clause [%s] of loop %d was never in scope at the end of an iteration", e.Label, ord)] = true
					}
				}
			}
			for k, cls := range ex.con.Callsites {
				for _, e := range cls {
					if !ex.clauseHit["callsite@"+k+"#"+e.Label] {
						ex.unsupported["vacuous: callsite clause ["+e.Label+"] on "+k+" never applied"] = true
					}
				}
			}
		}
		rep.Obls = ex.obls
		rep.Unsupported = sortedKeys(ex.unsupported)
		rep.UnknownExt = sortedKeys(ex.unknownExt)
		rep.UsedSpecs = sortedKeys(ex.usedSpecs)
		rep.Inlined = sortedKeys(ex.inlined)
		rep.Paths = ex.paths
		rep.NoDecreases = ex.noDecreases
		rep.Bounded = ex.bounded
		rep.Returns = ex.retCount
	}()
	c := ex.con
	if c == nil {
		c = &Contract{Key: key, Kind: "func", Loops: map[int]*LoopSpec{}}
	}
	if c.Trusted {
		rep.Trusted = true
		return rep
	}
	if c.Skip != "" {
		rep.Skipped = c.Skip
		return rep
	}
	st := &State{Heap: map[string]*Term{}, Mem: map[string]*MemLog{}, Ghost: map[string]*Term{}, Cells: map[*Cell]Value{}, Closures: map[string]*Closure{}, Dirty: map[string]bool{}, DirtyCells: map[*Cell]bool{}, Defs: map[string]bool{}}
	st.Alloc = Var("alloc0", SInt)
	st.assume(Ge(st.Alloc, Int(1)))
	var args, bindings []Value
	for _, p := range fn.Params {
		args = append(args, ex.freshValue(st, p.Type(), "p."+p.Name()))
	}
	for _, p := range fn.FreeVars {
		// captured variables are pointers to cells in SSA; model each as a cell with a symbolic content
		if pt, ok := p.Type().Underlying().(*types.Pointer); ok {
			ex.fresh++
			cell := &Cell{Name: "fv." + p.Name(), id: ex.fresh}
			st.Cells[cell] = ex.freshValue(st, pt.Elem(), "fv."+p.Name())
			bindings = append(bindings, Value{T: p.Type(), Loc: &Loc{Kind: "cell", Cell: cell, T: pt.Elem()}})
		} else {
			bindings = append(bindings, ex.freshValue(st, p.Type(), "fv."+p.Name()))
		}
	}
	fr0 := &Frame{fn: fn, args: args, bindings: bindings}
	fr0.ghostPar = map[string]Value{}
	for _, g := range c.GhostPars {
		fr0.ghostPar[g] = specInt(Var("gp."+g, SInt))
	}
	// axioms
	axEnv := &Env{ex: ex, cur: st, old: st, live: st, vars: map[string]Value{}, pkg: pkgOf(fn)}
	for _, ax := range ex.specs.Axioms {
		st.assume(axEnv.boolTerm(ax.Expr))
	}
	ex.entry = st // provisional for baseEnv
	env := ex.baseEnv(fr0, st)
	env.old = st
	env.assuming = true
	for _, r := range c.Requires {
		st.assume(env.boolTerm(r.Expr))
	}
	env.assuming = false
	entry := st.clone()
	ex.entry = entry
	st.Dirty = map[string]bool{}
	st.DirtyCells = map[*Cell]bool{}
	// vacuity: the precondition must be satisfiable
	ex.cover(st, "requires-sat")

	// run
	fr := &Frame{fn: fn, vals: map[ssa.Value]Value{}, args: args, bindings: bindings, loops: map[*ssa.BasicBlock]*loopCtx{}, top: true, ghostPar: fr0.ghostPar, callStack: []string{key}}
	ex.topFr = fr
	if c != nil {
		ex.matchLoops(fn, c) // also records loop blocks whose loop no longer exists
	}
	ex.tryPath(func() {
		ex.execBlock(fr, fn.Blocks[0], st, func(st *State, res Value) {
			ex.atReturn(fr, c, st, res)
		})
	})
	return rep
}

func pkgOf(fn *ssa.Function) *types.Package {
	for fn != nil {
		if fn.Pkg != nil {
			return fn.Pkg.Pkg
		}
		fn = fn.Parent()
	}
	return nil
}

func (ex *Exec) atReturn(fr *Frame, c *Contract, st *State, res Value) {
	if st.topFrame != nil {
		fr = st.topFrame
	}
	if ex.recording != nil {
		for n := range st.Dirty {
			ex.recording.Names[n] = true
		}
		for cc := range st.DirtyCells {
			ex.recording.Cells[cc] = true
		}
		return
	}
	ex.retCount++
	ex.cover(st, fmt.Sprintf("return@%s", st.retSite))
	env := ex.baseEnv(fr, st)
	env.old = ex.entry
	var resT types.Type = fr.fn.Signature.Results()
	if fr.fn.Signature.Results().Len() == 1 {
		resT = fr.fn.Signature.Results().At(0).Type()
	}
	res.T = resT
	ex.bindResults(env, c, fr.fn, res, resT)
	ex.applyGhostSets(env, c, st)
	for _, e := range c.Ensures {
		ex.oblige(st, "ensures", e.Label, e.Props, env.boolTerm(e.Expr), fr.fn.Pos(), ex.fnKey)
	}
	if c.Refines != "" {
		// behavioural subtyping: the method satisfies the interface-level contract
		if ic := ex.specs.Contracts[c.Refines]; ic != nil {
			renv := &Env{ex: ex, cur: st, old: ex.entry, live: st, vars: map[string]Value{}, pkg: env.pkg}
			for i, p := range ic.Params {
				if i >= len(fr.args) {
					break
				}
				a := fr.args[i]
				if i == 0 {
					a = ex.makeInterface(st, a, fr.fn.Params[0].Type(), anyType)
				}
				renv.vars[p] = a
			}
			names := ic.Results
			if tup, ok := resT.(*types.Tuple); ok {
				off := 0
				for i := 0; i < tup.Len(); i++ {
					n := len(leavesOf(tup.At(i).Type()))
					if i < len(names) {
						renv.vars[names[i]] = Value{T: tup.At(i).Type(), L: res.L[off : off+n]}
					}
					off += n
				}
			} else if len(names) == 1 {
				renv.vars[names[0]] = res
			}
			renv.vars["result"] = res
			for _, g := range ic.GhostPars {
				if v, ok := fr.ghostPar[g]; ok {
					renv.vars[g] = v
				} else {
					renv.vars[g] = specInt(Var("gp."+g, SInt))
				}
			}
			for _, e := range ic.Ensures {
				ex.oblige(st, "refines@"+strings.TrimPrefix(c.Refines, "iface "), e.Label, mergeProps(e.Props, c.Props), renv.boolTerm(e.Expr), fr.fn.Pos(), ex.fnKey)
			}
		} else {
			ex.unsupported["refines: no contract "+c.Refines] = true
		}
	}
	if len(c.AtReturn) > 0 && fr.lastRet != nil {
		lenv := ex.localEnv(fr, st, fr.lastRet)
		lenv.old = ex.entry
		ex.bindResults(lenv, c, fr.fn, res, resT)
		for _, e := range c.AtReturn {
			if g := tryBool(lenv, e.Expr); g != nil {
				ex.clauseHit["atreturn#"+e.Label] = true
				ex.oblige(st, "atreturn", e.Label, e.Props, g, fr.lastRet.Pos(), ex.fnKey)
			}
		}
	}
	if ex.con != nil && (c.HasMod || len(c.Ensures) > 0) {
		ex.frameCheck(env, c, st)
	}
}

// frameCheck: everything not named in modifies is unchanged (witness form).
func (ex *Exec) frameCheck(env *Env, c *Contract, st *State) {
	ms := ex.resolveModifies(env, c)
	if ms.All {
		return
	}
	ex.resolveMemNew(env, ms)
	var dirty []string
	for n := range st.Dirty {
		dirty = append(dirty, n)
	}
	sort.Strings(dirty)
	for _, ft := range ex.frameTerms(st, ms, dirty) {
		ex.oblige(st, "frame", ft.label, c.Props, ft.t, ex.fn.Pos(), ex.fnKey)
	}
}

type frameTerm struct {
	label string
	t     *Term
}

// frameTerms builds, for each written array in names, the witness-form statement
// "entries outside the modifies set are as on entry".
func (ex *Exec) frameTerms(st *State, ms *ModSet, names []string) []frameTerm {
	entry := ex.entry
	var out []frameTerm
	// an id existed on entry: object ids are positive; the derived address of an embedded
	// array / buffer of object o is -(64*o + k), 0 < k < 64
	notFresh := func(x *Term) *Term {
		return Ite(Ge(x, Int(0)), Le(x, entry.Alloc), Le(Div(Neg(x), Int(64)), entry.Alloc))
	}
	for _, d := range names {
		switch {
		case d == "*":
			out = append(out, frameTerm{"unknown-effects", tFalse})
		case strings.HasPrefix(d, "H:"):
			name := d[2:]
			cur, ok := st.Heap[name]
			if !ok {
				continue
			}
			old, had := entry.Heap[name]
			if !had {
				old = Var("H0."+name, cur.Sort)
			}
			if cur == old {
				continue
			}
			if strings.HasPrefix(name, "box:") {
				continue
			}
			if strings.HasPrefix(name, "map") {
				w := Var("fw.map", SInt)
				hyp := And(notFresh(w), Ne(w, Int(0)))
				rest := name[strings.Index(name, ":")+1:]
				for mk, ids := range ms.Maps {
					if strings.HasPrefix(rest, mk) {
						for _, id := range ids {
							hyp = And(hyp, Ne(w, id))
						}
					}
				}
				out = append(out, frameTerm{name, Implies(hyp, Eq(Select(cur, w), Select(old, w)))})
				continue
			}
			w := Var("fw.obj", SInt)
			hyp := And(notFresh(w), Ne(w, Int(0)))
			for _, id := range ms.Heap[name] {
				hyp = And(hyp, Ne(w, id))
			}
			out = append(out, frameTerm{name, Implies(hyp, Eq(Select(cur, w), Select(old, w)))})
		case strings.HasPrefix(d, "G:"):
			name := d[2:]
			if ms.Ghost[name] || ex.specs.Unframed[name] {
				continue
			}
			cur, ok := st.Ghost[name]
			if !ok {
				continue
			}
			old, had := entry.Ghost[name]
			if !had {
				old = Var("G0."+name, cur.Sort)
			}
			out = append(out, frameTerm{"#" + name, Eq(cur, old)})
		case strings.HasPrefix(d, "M:"):
			name := d[2:]
			cur, ok := st.Mem[name]
			if !ok {
				continue
			}
			old, had := entry.Mem[name]
			if !had {
				as := SArr2I
				if cur.Sort == SBool {
					as = SArr2B
				}
				old = &MemLog{Base: Var("M0."+name, as), Sort: cur.Sort}
			}
			wa, wi := Var("fw.arr", SInt), Var("fw.idx", SInt)
			hyp := notFresh(wa)
			for _, r := range ms.Mem {
				for _, l := range leavesOf(r.elem) {
					if memName(r.elem, l.Path) == name {
						hyp = And(hyp, Not(And(Eq(wa, r.arr), Le(r.lo, wi), Lt(wi, r.hi))))
					}
				}
			}
			out = append(out, frameTerm{name, Implies(hyp, Eq(cur.read(wa, wi), old.read(wa, wi)))})
		}
	}
	return out
}

var instrOrders = map[*ssa.Function]map[ssa.Instruction]int{}

func (ex *Exec) instrOrder(fn *ssa.Function, ins ssa.Instruction) int {
	m, ok := instrOrders[fn]
	if !ok {
		m = map[ssa.Instruction]int{}
		n := 0
		for _, b := range fn.Blocks {
			for _, i := range b.Instrs {
				n++
				m[i] = n
			}
		}
		instrOrders[fn] = m
	}
	return m[ins]
}

// tryBool evaluates a clause over locals; nil when a local it names is not in scope here.
func tryBool(env *Env, x *SExpr) (g *Term) {
	defer func() {
		if r := recover(); r != nil {
			if se, ok := r.(specErr); ok && strings.HasPrefix(se.msg, "unknown identifier") {
				g = nil
				return
			}
			panic(r)
		}
	}()
	return env.boolTerm(x)
}
