package main

// Native trusted specifications of external callees whose effect involves
// byte regions or stream positions. Each entry's English statement is
// reported in the evidence (intrinsicDocs).

import (
	"fmt"
	"go/types"
	"strings"

	"golang.org/x/tools/go/ssa"
)

type intrinsic func(ex *Exec, fr *Frame, st *State, site ssa.Instruction, args []Value, resT types.Type) Value

var intrinsics = map[string]intrinsic{}

var intrinsicDocs = map[string]string{
	"io.ReadFull":                        "io.ReadFull(r,buf): the input stream is finite (positions never exceed its length); a returned error is never a buffer.MessageSizeExceeded chain; err==nil => n==len(buf), buf filled with the next len(buf) stream bytes, position advances by len(buf); err!=nil => 0<=n<len(buf), position advances by n, first n cells filled; len(buf)==0 => (0,nil); err==io.EOF => n==0; writes only buf's cells",
	"iface buffer.BufferedReader.ReadByte": "ReadByte: err==nil => result is the next stream byte and position advances by 1; err!=nil => position unchanged",
	"bufio.NewReaderSize":                "bufio.NewReaderSize(rd,n): fresh reader at stream position 0 of rd",
	"(binary.bigEndian).Uint32":          "BigEndian.Uint32(b): requires len(b)>=4; big-endian value of b[0..4)",
	"(binary.bigEndian).Uint16":          "BigEndian.Uint16(b): requires len(b)>=2; big-endian value of b[0..2)",
	"(binary.bigEndian).AppendUint16":    "BigEndian.AppendUint16(b,v): append(b, the two big-endian bytes of v)",
	"(binary.bigEndian).AppendUint32":    "BigEndian.AppendUint32(b,v): append(b, the four big-endian bytes of v)",
	"(binary.bigEndian).AppendUint64":    "BigEndian.AppendUint64(b,v): append(b, the eight big-endian bytes of v)",
	"(binary.bigEndian).PutUint32":       "BigEndian.PutUint32(b,v): requires len(b)>=4; stores the four big-endian bytes of v into b[0..4)",
	"(binary.bigEndian).PutUint16":       "BigEndian.PutUint16(b,v): requires len(b)>=2; stores the two big-endian bytes of v",
	"bytes.IndexByte":                    "bytes.IndexByte(b,c): -1 (and, for c==0, b is NUL-free) or an index i<len(b) with b[i]==c (and, for c==0, b[:i] NUL-free)",
	"bytes.HasPrefix":                    "bytes.HasPrefix(a,p): true => len(a)>=len(p) and a[k]==p[k] at the indices read; false is unconstrained",
	"(*bytes.Buffer).Write":              "bytes.Buffer.Write(p): appends p, returns (len(p),nil)",
	"(*bytes.Buffer).WriteByte":          "bytes.Buffer.WriteByte(c): appends c, returns nil",
	"(*bytes.Buffer).WriteString":        "bytes.Buffer.WriteString(s): appends the bytes of s, returns (len(s),nil)",
	"(*bytes.Buffer).Reset":              "bytes.Buffer.Reset(): content becomes empty",
	"(*bytes.Buffer).Len":                "bytes.Buffer.Len(): length of content; a buffer holds fewer than 2^32 bytes (frames of 4 GiB or more are outside the model)",
	"(*bytes.Buffer).Bytes":              "bytes.Buffer.Bytes(): slice aliasing the content (length Len())",
	"errors.New":                         "errors.New(s): fresh non-nil error of dynamic type *errors.errorString with text s and no wrapped error",
	"fmt.Errorf":                         "fmt.Errorf(f,args): fresh non-nil error; wraps the %w argument if the constant format has one; text is NUL-free if the format and every string/error/[]byte argument are",
	"fmt.Sprintf":                        "fmt.Sprintf(f,args): fresh string; NUL-free under the same rule as fmt.Errorf",
	"strconv.Itoa":                       "strconv.Itoa(n): the decimal text of n (a NUL-free string of 1..20 bytes, a function of n)",
	"strconv.FormatInt":                  "strconv.FormatInt(n,10): the decimal text of n",
}

func bufGhost(st *State, name string, id *Term) *Term {
	v := Select(st.heapArr("#"+name, SInt), id)
	if name == "blen" {
		// trusted: a bytes.Buffer holds fewer than 2^32 bytes (frames of 4 GiB or more are outside the model)
		st.assume(And(Le(Int(0), v), Lt(v, IntB(pow2[32]))))
	}
	return v
}
func setBufGhost(st *State, name string, id, v *Term) {
	st.Heap["#"+name] = Store(st.heapArr("#"+name, SInt), id, v)
	st.Dirty["H:#"+name] = true
}

// bufArr: the array id holding the content of the bytes.Buffer with address id
// (a dedicated id next to the buffer's own address; never aliases a slice array).
func bufArr(id *Term) *Term { return Sub(id, Int(32)) }

func byteMem(st *State) *MemLog { return st.mem(memName(tByte, ""), SInt) }

func errValue(ex *Exec, st *State, prefix string) Value {
	return ex.freshValue(st, errorType, prefix)
}

var errorType = types.Universe.Lookup("error").Type()

func init() {
	intrinsics["io.ReadFull"] = func(ex *Exec, fr *Frame, st *State, site ssa.Instruction, args []Value, resT types.Type) Value {
		r, buf := args[0], args[1]
		id := r.L[1]
		pos := bufGhost(st, "pos", id)
		n := ex.freshVar("rf.n", SInt)
		err := errValue(ex, st, "rf.err")
		ok := Eq(err.L[0], Int(0))
		ln := buf.Len()
		st.assume(And(Le(Int(0), n), Le(n, ln)))
		st.assume(Implies(ok, Eq(n, ln)))
		st.assume(Implies(Not(ok), Lt(n, ln)))
		st.assume(Implies(Eq(ln, Int(0)), ok))
		transportErr(st, err)
		eof := ex.loadGlobal(st, "io.EOF", errorType)
		st.assume(Implies(And(Eq(err.L[0], eof.L[0]), Eq(err.L[1], eof.L[1])), Eq(n, Int(0))))
		lo := buf.Off()
		st.regionWrite(buf.Arr(), lo, Add(lo, n), tByte, func(l Leaf, idx *Term) *Term {
			return UF("stream", SInt, id, Add(pos, Sub(idx, lo)))
		})
		st.assume(And(Le(Int(0), pos), Le(Add(pos, n), UF("streamlen", SInt, id))))
		setBufGhost(st, "pos", id, Add(pos, n))
		return Value{T: resT, L: []*Term{n, err.L[0], err.L[1]}}
	}
	intrinsics["iface buffer.BufferedReader.ReadByte"] = func(ex *Exec, fr *Frame, st *State, site ssa.Instruction, args []Value, resT types.Type) Value {
		id := args[0].L[1]
		pos := bufGhost(st, "pos", id)
		err := errValue(ex, st, "rb.err")
		ok := Eq(err.L[0], Int(0))
		b := ex.freshVar("rb.b", SInt)
		st.assume(InRange(b, 8, false))
		st.assume(Implies(ok, Eq(b, UF("stream", SInt, id, pos))))
		transportErr(st, err)
		st.assume(And(Le(Int(0), pos), Le(Ite(ok, Add(pos, Int(1)), pos), UF("streamlen", SInt, id))))
		setBufGhost(st, "pos", id, Ite(ok, Add(pos, Int(1)), pos))
		return Value{T: resT, L: []*Term{b, err.L[0], err.L[1]}}
	}
	intrinsics["bufio.NewReaderSize"] = func(ex *Exec, fr *Frame, st *State, site ssa.Instruction, args []Value, resT types.Type) Value {
		p := ex.newObj(st)
		setBufGhost(st, "pos", p, Int(0))
		setBufGhost(st, "src", p, args[0].L[1])
		return Value{T: resT, L: []*Term{p}}
	}
	be := func(n int) intrinsic {
		return func(ex *Exec, fr *Frame, st *State, site ssa.Instruction, args []Value, resT types.Type) Value {
			b := args[len(args)-1]
			ex.oblige(st, "safety", fmt.Sprintf("extern:BigEndian.Uint%d:%s", n*8, ex.operandNameAt(fr, site, 1)), ex.safetyProps(fr), Ge(b.Len(), Int(int64(n))), site.Pos(), fnKeyOf(fr.fn))
			st.assume(Ge(b.Len(), Int(int64(n))))
			v := Int(0)
			for i := 0; i < n; i++ {
				c := byteMem(st).read(b.Arr(), Add(b.Off(), Int(int64(i))))
				st.assume(InRange(c, 8, false))
				v = Add(Mul(v, Int(256)), c)
			}
			return Value{T: resT, L: []*Term{v}}
		}
	}
	intrinsics["(binary.bigEndian).Uint32"] = be(4)
	intrinsics["(binary.bigEndian).Uint16"] = be(2)
	put := func(n int) intrinsic {
		return func(ex *Exec, fr *Frame, st *State, site ssa.Instruction, args []Value, resT types.Type) Value {
			b, v := args[len(args)-2], args[len(args)-1].L[0]
			ex.oblige(st, "safety", fmt.Sprintf("extern:BigEndian.PutUint%d:%s", n*8, ex.operandNameAt(fr, site, 1)), ex.safetyProps(fr), Ge(b.Len(), Int(int64(n))), site.Pos(), fnKeyOf(fr.fn))
			st.assume(Ge(b.Len(), Int(int64(n))))
			for i := 0; i < n; i++ {
				shift := IntB(pow2[8*(n-1-i)])
				byteV := Mod(Div(v, shift), Int(256))
				st.storeElem(b.Arr(), Add(b.Off(), Int(int64(i))), Value{T: tByte, L: []*Term{byteV}})
			}
			return Value{T: resT}
		}
	}
	// binary.BigEndian.AppendUintN(b, v) = append(b, big-endian bytes of v...)
	appendUint := func(n int) intrinsic {
		return func(ex *Exec, fr *Frame, st *State, site ssa.Instruction, args []Value, resT types.Type) Value {
			b, v := args[len(args)-2], args[len(args)-1].L[0]
			tmp := ex.newObj(st)
			for i := 0; i < n; i++ {
				shift := IntB(pow2[8*(n-1-i)])
				st.storeElem(tmp, Int(int64(i)), Value{T: tByte, L: []*Term{Mod(Div(v, shift), Int(256))}})
			}
			bt := types.NewSlice(tByte)
			return ex.appendSlices(st, bt, Value{T: bt, L: b.L}, sliceVal(bt, tmp, Int(0), Int(int64(n)), Int(int64(n))))
		}
	}
	intrinsics["(binary.bigEndian).AppendUint16"] = appendUint(2)
	intrinsics["(binary.bigEndian).AppendUint32"] = appendUint(4)
	intrinsics["(binary.bigEndian).AppendUint64"] = appendUint(8)
	intrinsics["(binary.bigEndian).PutUint32"] = put(4)
	intrinsics["(binary.bigEndian).PutUint16"] = put(2)
	intrinsics["bytes.IndexByte"] = func(ex *Exec, fr *Frame, st *State, site ssa.Instruction, args []Value, resT types.Type) Value {
		b, c := args[0], args[1].L[0]
		r := ex.freshVar("idx", SInt)
		st.assume(And(Le(Int(-1), r), Lt(r, b.Len())))
		st.assume(Implies(Ge(r, Int(0)), Eq(byteMem(st).read(b.Arr(), Add(b.Off(), r)), c)))
		isNul := Eq(c, Int(0))
		st.assume(Implies(And(isNul, Ge(r, Int(0))), UF("nulfree_region", SBool, b.Arr(), b.Off(), r)))
		st.assume(Implies(And(isNul, Eq(r, Int(-1))), UF("nulfree_region", SBool, b.Arr(), b.Off(), b.Len())))
		// least index: a NUL-free prefix cannot contain the byte at a smaller witness index
		return Value{T: resT, L: []*Term{r}}
	}
	intrinsics["bytes.HasPrefix"] = func(ex *Exec, fr *Frame, st *State, site ssa.Instruction, args []Value, resT types.Type) Value {
		a, p := args[0], args[1]
		r := ex.freshVar("hasprefix", SBool)
		st.assume(Implies(r, Ge(a.Len(), p.Len())))
		return Value{T: resT, L: []*Term{r}}
	}
	// bytes.Buffer: content lives in byte memory at array #barr[id], indices [0,#blen[id])
	barr := func(st *State, id *Term) *Term { return bufArr(id) }
	intrinsics["(*bytes.Buffer).Write"] = func(ex *Exec, fr *Frame, st *State, site ssa.Instruction, args []Value, resT types.Type) Value {
		id, p := args[0].L[0], args[1]
		ln := bufGhost(st, "blen", id)
		snap := byteMem(st)
		st.regionWrite(barr(st, id), ln, Add(ln, p.Len()), tByte, func(l Leaf, idx *Term) *Term {
			return snap.read(p.Arr(), Add(p.Off(), Sub(idx, ln)))
		})
		setBufGhost(st, "blen", id, Add(ln, p.Len()))
		return Value{T: resT, L: []*Term{p.Len(), Int(0), Int(0)}}
	}
	intrinsics["(*bytes.Buffer).WriteByte"] = func(ex *Exec, fr *Frame, st *State, site ssa.Instruction, args []Value, resT types.Type) Value {
		id, c := args[0].L[0], args[1].L[0]
		ln := bufGhost(st, "blen", id)
		st.storeElem(barr(st, id), ln, Value{T: tByte, L: []*Term{c}})
		setBufGhost(st, "blen", id, Add(ln, Int(1)))
		return Value{T: resT, L: []*Term{Int(0), Int(0)}}
	}
	intrinsics["(*bytes.Buffer).WriteString"] = func(ex *Exec, fr *Frame, st *State, site ssa.Instruction, args []Value, resT types.Type) Value {
		id, s := args[0].L[0], args[1].L[0]
		ln := bufGhost(st, "blen", id)
		n := UF("slen", SInt, s)
		st.regionWrite(barr(st, id), ln, Add(ln, n), tByte, func(l Leaf, idx *Term) *Term {
			return UF("sbyte", SInt, s, Sub(idx, ln))
		})
		setBufGhost(st, "blen", id, Add(ln, n))
		return Value{T: resT, L: []*Term{n, Int(0), Int(0)}}
	}
	intrinsics["(*bytes.Buffer).Reset"] = func(ex *Exec, fr *Frame, st *State, site ssa.Instruction, args []Value, resT types.Type) Value {
		setBufGhost(st, "blen", args[0].L[0], Int(0))
		return Value{T: resT}
	}
	intrinsics["(*bytes.Buffer).Len"] = func(ex *Exec, fr *Frame, st *State, site ssa.Instruction, args []Value, resT types.Type) Value {
		ln := bufGhost(st, "blen", args[0].L[0])
		st.assume(Le(Int(0), ln))
		return Value{T: resT, L: []*Term{ln}}
	}
	intrinsics["(*bytes.Buffer).Bytes"] = func(ex *Exec, fr *Frame, st *State, site ssa.Instruction, args []Value, resT types.Type) Value {
		id := args[0].L[0]
		ln := bufGhost(st, "blen", id)
		st.assume(Le(Int(0), ln))
		return sliceVal(resT, barr(st, id), Int(0), ln, ln)
	}
	intrinsics["errors.New"] = func(ex *Exec, fr *Frame, st *State, site ssa.Instruction, args []Value, resT types.Type) Value {
		p := ex.newObj(st)
		tag := Int(int64(typeTagByName("*errors.errorString")))
		st.assume(Eq(UF("errtext", SInt, tag, p), args[0].L[0]))
		st.assume(Eq(UF("unwrap.tag", SInt, tag, p), Int(0)))
		st.assume(Eq(UF("unwrap.val", SInt, tag, p), Int(0)))
		return Value{T: resT, L: []*Term{tag, p}}
	}
	fmtLike := func(isErr bool) intrinsic {
		return func(ex *Exec, fr *Frame, st *State, site ssa.Instruction, args []Value, resT types.Type) Value {
			format := ""
			known := false
			if call, ok := site.(*ssa.Call); ok {
				if c, ok := call.Call.Args[0].(*ssa.Const); ok && c.Value != nil {
					format = strings.Trim(c.Value.ExactString(), "\"")
					known = true
				}
			}
			va := args[1] // []any
			nargs := -1
			if va.Len().IsInt() {
				nargs = int(va.Len().Int.Int64())
			}
			text := ex.freshVar("fmt.text", SInt)
			st.assume(Le(Int(0), UF("slen", SInt, text)))
			nul := tTrue
			if !known || nargs < 0 || strings.Contains(format, "\\x00") {
				nul = ex.freshVar("fmt.nulfree", SBool)
			}
			var wrapped *Value
			if known && nargs >= 0 {
				verbs := fmtVerbs(format)
				anyMem := func(i int) Value { return st.loadElem(va.Arr(), Add(va.Off(), Int(int64(i))), anyType) }
				for i, vb := range verbs {
					if i >= nargs {
						break
					}
					a := anyMem(i)
					switch vb {
					case 'd', 'q', 'x', 'X', 'c', 'U', 't', 'b', 'o', 'e', 'f', 'g', 'p', 'T':
						// always NUL-free renderings (for %c a zero rune would not be; not used)
						if vb == 'c' {
							nul = And(nul, Ne(a.L[1], Int(0)))
						}
					case 'w':
						w := a
						wrapped = &w
						nul = And(nul, UF("nulfree", SBool, UF("errtext", SInt, a.L[0], a.L[1])))
					default: // s, v
						strTag := Int(int64(typeTag(tString)))
						isStr := Eq(a.L[0], strTag)
						// strings: payload is the string id; errors and others: text via errtext / assumed by tag
						nul = And(nul, Ite(isStr, UF("nulfree", SBool, a.L[1]), UF("nulfree", SBool, UF("rendered", SInt, a.L[0], a.L[1]))))
					}
				}
			}
			st.assume(Eq(UF("nulfree", SBool, text), nul))
			if !isErr {
				return Value{T: resT, L: []*Term{text}}
			}
			p := ex.newObj(st)
			tagName := "*fmt.wrapError"
			if wrapped == nil {
				tagName = "*fmt.fmtError"
			}
			tag := Int(int64(typeTagByName(tagName)))
			st.assume(Eq(UF("errtext", SInt, tag, p), text))
			if wrapped != nil {
				st.assume(Eq(UF("unwrap.tag", SInt, tag, p), wrapped.L[0]))
				st.assume(Eq(UF("unwrap.val", SInt, tag, p), wrapped.L[1]))
			} else {
				st.assume(Eq(UF("unwrap.tag", SInt, tag, p), Int(0)))
				st.assume(Eq(UF("unwrap.val", SInt, tag, p), Int(0)))
			}
			return Value{T: resT, L: []*Term{tag, p}}
		}
	}
	intrinsics["strconv.Itoa"] = func(ex *Exec, fr *Frame, st *State, site ssa.Instruction, args []Value, resT types.Type) Value {
		id := UF("itoa", SInt, args[0].L[0])
		st.assume(UF("nulfree", SBool, id))
		st.assume(And(Le(Int(1), UF("slen", SInt, id)), Le(UF("slen", SInt, id), Int(20))))
		return Value{T: resT, L: []*Term{id}}
	}
	intrinsics["strconv.FormatInt"] = func(ex *Exec, fr *Frame, st *State, site ssa.Instruction, args []Value, resT types.Type) Value {
		id := ex.freshVar("fmtint", SInt)
		if args[1].L[0].IsInt() && args[1].L[0].Int.Int64() == 10 {
			id = UF("itoa", SInt, args[0].L[0])
		}
		st.assume(UF("nulfree", SBool, id))
		st.assume(And(Le(Int(1), UF("slen", SInt, id)), Le(UF("slen", SInt, id), Int(65))))
		return Value{T: resT, L: []*Term{id}}
	}
	intrinsics["fmt.Errorf"] = fmtLike(true)
	intrinsics["fmt.Sprintf"] = fmtLike(false)
}

// transportErr: an error returned by the transport is not a MessageSizeExceeded chain
// (that type is only constructed by buffer.NewMessageSizeExceeded).
func transportErr(st *State, err Value) {
	st.assume(Not(UF("spec.isExceeded", SBool, err.L[0], err.L[1])))
}

func fmtVerbs(f string) []byte {
	var out []byte
	for i := 0; i < len(f); i++ {
		if f[i] != '%' {
			continue
		}
		i++
		for i < len(f) && strings.ContainsRune("+-# 0123456789.", rune(f[i])) {
			i++
		}
		if i < len(f) && f[i] != '%' {
			out = append(out, f[i])
		}
	}
	return out
}

var pseudoTags = map[string]int{}

// typeTagByName: tags for dynamic types we cannot name through go/types (unexported std types)
func typeTagByName(name string) int {
	if id, ok := typeTags[name]; ok {
		return id
	}
	id := len(typeTagNames)
	typeTags[name] = id
	typeTagNames = append(typeTagNames, name)
	typeTagTypes = append(typeTagTypes, nil)
	return id
}

func (ex *Exec) operandNameAt(fr *Frame, site ssa.Instruction, argIdx int) string {
	if call, ok := site.(*ssa.Call); ok {
		args := call.Call.Args
		if argIdx < len(args) {
			return ex.operandName(fr.fn, args[argIdx])
		}
	}
	return "arg"
}
