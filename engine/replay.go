package main

import (
	"encoding/json"
	"fmt"
	"os"
	"os/exec"
	"path/filepath"
	"regexp"
	"strings"
	"time"
)

type driverRule struct {
	Match    string            `json:"match"`    // regexp on the obligation name
	Pkg      string            `json:"pkg"`      // package directory relative to the repo root
	Driver   string            `json:"driver"`   // driver name understood by the injected test
	Scenario map[string]string `json:"scenario"` // static scenario fields
}

type scenarioFile struct {
	Driver     string            `json:"driver"`
	Property   string            `json:"property"`
	Obligation string            `json:"obligation"`
	Pkg        string            `json:"pkg"`
	Model      map[string]string `json:"model"`
	Trace      []string          `json:"trace"`
	Source     string            `json:"source"`
	Solver     string            `json:"solver"`
	Output     string            `json:"replay_output,omitempty"`
	Confirmed  bool              `json:"confirmed"`
}

var replayDir = "/verif/replay"

func loadDriverRules() []driverRule {
	data, err := os.ReadFile(filepath.Join(replayDir, "drivers.json"))
	if err != nil {
		return nil
	}
	var rules []driverRule
	json.Unmarshal(data, &rules)
	return rules
}

// tryReplay turns a failed obligation into a scenario for the matching replay driver,
// runs it against the real code (go test -overlay) and reports whether the real
// code exhibited the violation.
func tryReplay(ld *Loaded, prop, name string, ob *Obligation, work string) (string, bool) {
	if ob == nil || *flagNoReplay {
		return "", false
	}
	var rule *driverRule
	for _, r := range loadDriverRules() {
		re, err := regexp.Compile(r.Match)
		if err != nil {
			continue
		}
		if re.MatchString(name) {
			rr := r
			rule = &rr
			break
		}
	}
	if rule == nil {
		return "", false
	}
	sc := scenarioFile{Driver: rule.Driver, Property: prop, Obligation: name, Pkg: rule.Pkg, Model: map[string]string{}, Trace: ob.Trace, Source: ob.Pos, Solver: ob.Backend}
	for _, kv := range parseModel(ob.Model) {
		if strings.HasPrefix(kv[0], "H0.") || strings.HasPrefix(kv[0], "M0.") || strings.HasPrefix(kv[0], "alloc") || strings.HasPrefix(kv[0], "nm!") {
			continue
		}
		// strip freshness counters: p.size!2 -> p.size
		k := kv[0]
		if i := strings.Index(k, "!"); i >= 0 {
			j := i + 1
			for j < len(k) && k[j] >= '0' && k[j] <= '9' {
				j++
			}
			k = k[:i] + k[j:]
		}
		k = strings.TrimPrefix(k, "p.")
		if _, dup := sc.Model[k]; !dup {
			sc.Model[k] = kv[1]
		}
	}
	for k, v := range rule.Scenario {
		sc.Model[k] = v
	}
	os.MkdirAll(*flagReplayDir, 0o755)
	path := filepath.Join(*flagReplayDir, fmt.Sprintf("%s_%s.json", prop, sanitize(name)))
	write := func() {
		data, _ := json.MarshalIndent(sc, "", " ")
		os.WriteFile(path, data, 0o644)
	}
	write()
	out, confirmed := runReplay(*flagRepo, path, rule.Pkg, rule.Scenario["race"] == "1")
	sc.Output = out
	sc.Confirmed = confirmed
	write()
	return path, confirmed
}

// runReplay executes the scenario file against the repository at repo.
func runReplay(repo, scenarioPath, pkg string, race bool) (string, bool) {
	tmp, err := os.MkdirTemp("", "govc-replay")
	if err != nil {
		return err.Error(), false
	}
	defer os.RemoveAll(tmp)
	pkgDir := filepath.Join(repo, pkg)
	repl := map[string]string{}
	var files [][2]string
	switch pkg {
	case ".", "":
		files = [][2]string{{"zz_verif_replay_test.go", "wire_replay_test.go.txt"}, {"zz_verif_strict_test.go", "strict_parser_test.go.txt"}}
	case "pkg/buffer":
		files = [][2]string{{"zz_verif_replay_test.go", "buffer_replay_test.go.txt"}}
	default:
		return "no replay files for package " + pkg, false
	}
	for _, f := range files {
		repl[filepath.Join(pkgDir, f[0])] = filepath.Join(replayDir, f[1])
	}
	ov, _ := json.Marshal(map[string]interface{}{"Replace": repl})
	ovPath := filepath.Join(tmp, "overlay.json")
	os.WriteFile(ovPath, ov, 0o644)
	args := []string{"test", "-overlay", ovPath, "-vet=off", "-count=1", "-timeout", "90s", "-run", "^TestVerifReplay$", "-v"}
	if race {
		args = append(args, "-race")
	}
	args = append(args, "./"+pkg)
	cmd := exec.Command("go", args...)
	cmd.Dir = repo
	cmd.Env = append(os.Environ(), "VERIF_SCENARIO="+scenarioPath, "GOFLAGS=-mod=mod", "GOPROXY=off", "GOSUMDB=off", "GOTOOLCHAIN=local")
	done := make(chan struct{})
	var outB []byte
	go func() {
		outB, _ = cmd.CombinedOutput()
		close(done)
	}()
	select {
	case <-done:
	case <-time.After(240 * time.Second):
		if cmd.Process != nil {
			cmd.Process.Kill()
		}
		return "replay timed out", false
	}
	out := string(outB)
	if len(out) > 20000 {
		out = out[:20000]
	}
	return out, strings.Contains(out, "VERIF-CONFIRMED") || (race && strings.Contains(out, "DATA RACE"))
}

// replayMain implements `govc -replay <file>`: re-run a stored scenario.
func replayMain(path string) int {
	data, err := os.ReadFile(path)
	if err != nil {
		fmt.Println("cannot read replay file:", err)
		return 2
	}
	if strings.HasSuffix(path, ".txt") {
		fmt.Print(string(data))
		fmt.Println("(no executable scenario: this violation was reported as no-failing-input-found)")
		return 1
	}
	var sc scenarioFile
	if err := json.Unmarshal(data, &sc); err != nil {
		fmt.Println("bad replay file:", err)
		return 2
	}
	out, confirmed := runReplay(*flagRepo, path, sc.Pkg, sc.Model["race"] == "1")
	fmt.Print(out)
	if confirmed {
		fmt.Printf("VIOLATION property=%s replay=%s\n", sc.Property, path)
		return 1
	}
	return 0
}
