package main

// tryReplay turns a solver model into a Go test injected with -overlay and
// runs it against the real code. Returns the replay file and whether the real
// code exhibited the failure.
func tryReplay(ld *Loaded, prop, name string, ob *Obligation, work string) (string, bool) {
	return "", false
}
