package main

import (
	"sync"
	"encoding/json"
	"fmt"
	"os"
	"path/filepath"
	"sort"
	"strings"
	"time"
)

type oblGroup struct {
	Name     string
	Props    []string
	Kind     string
	Insts    []*Obligation
	Status   string // discharged | failed | unknown
	Backend  map[string]int
	TimeS    float64
}

type KnownFinding struct {
	Property   string `json:"property"`
	Obligation string `json:"obligation"`
	Path       string `json:"path,omitempty"` // substring that must occur in the failing path's trace
	What       string `json:"what"`
	Replay     string `json:"replay,omitempty"`
}

type KnownFile struct {
	Findings []KnownFinding `json:"findings"`
	Fixed    []string       `json:"fixed"`
}

var evidenceExtra = map[string]interface{}{}
var ex0rebound map[string]map[string][]string
var goneFuncs = map[string]bool{}

func hasProp(ps []string, p string) bool {
	for _, x := range ps {
		if x == p {
			return true
		}
	}
	return false
}

// directlyTagged: the contract of fn names the property (block or clause level), or the
// property is the safety sweep that covers every function.
func directlyTagged(db *SpecDB, fn, prop string) bool {
	if prop == "C04" {
		return true
	}
	c := db.Contracts[fn]
	return c != nil && (hasProp(c.Props, prop) || clauseHasProp(c, prop))
}

func runCheck(ld *Loaded, db *SpecDB, work string, t0 time.Time) int {
	prop := *flagProp
	ex := newExec(ld, db)
	ex0rebound = ex.rebound
	var reports []*FuncReport
	var all []*Obligation
	engineErrs := []string{}
	tGen := time.Now()
	// Functions of the property: those whose contract names it (block or clause level), and -
	// because verification is modular - every function whose contract they rely on, transitively:
	// a change inside a callee is noticed exactly when it breaks that callee's own contract.
	selected := map[string]bool{}
	var order []string
	for _, fn := range ld.funcs {
		key := fnKeyOf(fn)
		if *flagFunc != "" && !strings.Contains(key, *flagFunc) {
			continue
		}
		c := db.Contracts[key]
		if prop != "" && prop != "C04" {
			if c == nil || (!hasProp(c.Props, prop) && !clauseHasProp(c, prop)) {
				continue
			}
		}
		selected[key] = true
		order = append(order, key)
	}
	direct := len(order)
	admitted := map[string][]*Obligation{} // function key -> its obligations that belong to this check
	admit := func(rep *FuncReport) []*Obligation {
		var out []*Obligation
		for _, ob := range rep.Obls {
			isInv := ob.Kind == "inv-entry" || ob.Kind == "inv-step"
			if rep.Dependency && hasProp(ob.Props, "!explicit") && !hasProp(ob.Props, prop) && ob.Kind != "cover" && !isInv {
				// a clause written for another property: decided by that property's check.
				// (Not so for loop invariants: whatever property they were written for, they are
				// assumed after the loop by every clause of the function, so every check that
				// relies on the function has to see them hold.)
				continue
			}
			if prop == "" || rep.Dependency || hasProp(ob.Props, prop) || ob.Kind == "cover" || isInv {
				if rep.Dependency && prop != "" && !hasProp(ob.Props, prop) {
					ob.Props = append(append([]string(nil), ob.Props...), prop)
				}
				out = append(out, ob)
			}
		}
		return out
	}
	for i := 0; i < len(order); i++ {
		key := order[i]
		fn := ld.byKey[key]
		rep := ex.verifyFunction(fn)
		rep.Dependency = i >= direct
		reports = append(reports, rep)
		admitted[key] = admit(rep)
		all = append(all, admitted[key]...)
		if prop == "" || *flagFunc != "" {
			continue
		}
		for _, u := range rep.UsedSpecs {
			if !strings.HasPrefix(u, "func ") {
				continue
			}
			dk := strings.TrimPrefix(u, "func ")
			if dep, ok := ld.byKey[dk]; ok && !selected[dk] && dep != nil {
				selected[dk] = true
				order = append(order, dk)
			}
		}
	}
	genS := time.Since(tGen).Seconds()
	agree := *flagTier == "thorough"
	tSolve := time.Now()
	batchDischarge(all, work, *flagTimeout, agree, numWorkers())
	// solver gave up (no model, no proof): one patient retry before the verdict, so that a
	// loaded machine does not turn a slow proof into an alarm
	// The same holds for a "counterexample" that only satisfies the quantifier-free relaxation
	// of the premises while the solvers gave up on the quantified query: it is a candidate, not
	// a refutation, so the quantified query gets the patient retry too.
	{
		var rwg sync.WaitGroup
		sem := make(chan struct{}, numWorkers()/2+1)
		retried := 0
		for _, ob := range all {
			gaveUp := ob.Status == "unknown" || (ob.Status == "failed" && strings.Contains(ob.Backend, "(qf-relaxed)"))
			if !gaveUp || ob.Expect != "unsat" || ob.File == "" {
				continue
			}
			// a tree on which dozens of obligations give up is not rescued by patience; the retry
			// exists for the odd slow proof on a loaded machine
			if retried++; retried > 32 {
				break
			}
			if _, err := os.Stat(ob.File); err != nil {
				continue
			}
			rwg.Add(1)
			sem <- struct{}{}
			go func(ob *Obligation) {
				defer rwg.Done()
				defer func() { <-sem }()
				r, _ := solve(ob.File, 4**flagTimeout, false)
				if r.verdict == "unsat" {
					ob.Status, ob.Backend = "discharged", r.backend+"(retry)"
				} else if r.verdict == "sat" && ob.Status == "unknown" {
					ob.Status, ob.Backend, ob.Model = "failed", r.backend+"(retry)", r.output
				}
			}(ob)
		}
		rwg.Wait()
	}
	// Loop invariants are auxiliary: an invariant that was discharged on the baseline tree and
	// does not hold for the loop as it is now shows that the loop changed, not that a property is
	// violated. The block is set aside, the function is verified again with that loop unrolled
	// (bounded, reported as such) and the verdict is taken from its contract clauses, call-site
	// clauses and run-time checks on all runs within the bound.
	if !*flagWriteBaseline {
		redo := map[string]bool{}
		for _, ob := range all {
			if ob.Status == "discharged" || (ob.Kind != "inv-entry" && ob.Kind != "inv-step") {
				continue
			}
			var ord int
			if _, err := fmt.Sscanf(ob.Label, "loop%d:", &ord); err != nil {
				continue
			}
			if notInductive[ob.Func] == nil {
				notInductive[ob.Func] = map[int]bool{}
			}
			notInductive[ob.Func][ord] = true
			redo[ob.Host] = true
			redo[ob.Func] = true
		}
		var fresh []*Obligation
		for i, rep := range reports {
			if !redo[rep.Key] {
				continue
			}
			fn := ld.byKey[rep.Key]
			if fn == nil {
				continue
			}
			for f := range loopMatches {
				if notInductive[fnKeyOf(f)] != nil {
					delete(loopMatches, f)
				}
			}
			old := map[*Obligation]bool{}
			for _, ob := range admitted[rep.Key] {
				old[ob] = true
			}
			kept := all[:0]
			for _, ob := range all {
				if !old[ob] {
					kept = append(kept, ob)
				}
			}
			all = kept
			// the second pass is a bounded stand-in: it gets half the path budget, so a
			// function that cannot be decided this way is given up on quickly (and reported as
			// undecidable) instead of flooding the solvers
			savedPaths := ex.maxPaths
			ex.maxPaths = savedPaths / 2
			nrep := ex.verifyFunction(fn)
			ex.maxPaths = savedPaths
			nrep.Dependency = rep.Dependency
			reports[i] = nrep
			admitted[rep.Key] = admit(nrep)
			fresh = append(fresh, admitted[rep.Key]...)
		}
		if len(fresh) > 0 {
			batchDischarge(fresh, work, *flagTimeout, agree, numWorkers())
			all = append(all, fresh...)
		}
	}
	solveS := time.Since(tSolve).Seconds()

	// group by name
	groups := map[string]*oblGroup{}
	for _, ob := range all {
		g := groups[ob.Name]
		if g == nil {
			g = &oblGroup{Name: ob.Name, Props: ob.Props, Kind: ob.Kind, Backend: map[string]int{}}
			groups[ob.Name] = g
		}
		g.Insts = append(g.Insts, ob)
		g.Backend[ob.Backend]++
		g.TimeS += ob.TimeS
	}
	names := sortedKeys(groups)
	nDis, nFail, nUnk := 0, 0, 0
	for _, n := range names {
		g := groups[n]
		g.Status = "discharged"
		if g.Kind == "cover" {
			// reachable if any explored path to the site is satisfiable
			g.Status = "failed"
			for _, ob := range g.Insts {
				if ob.Status == "discharged" {
					g.Status = "discharged"
				}
			}
			if g.Status == "discharged" {
				nDis++
			} else {
				nFail++
			}
			continue
		}
		for _, ob := range g.Insts {
			if ob.Status == "failed" {
				g.Status = "failed"
			} else if ob.Status == "unknown" && g.Status != "failed" {
				g.Status = "unknown"
			}
		}
		switch g.Status {
		case "discharged":
			nDis++
		case "failed":
			nFail++
		default:
			nUnk++
		}
	}
	if *flagDump || *flagVerbose {
		for _, n := range names {
			g := groups[n]
			fmt.Printf("%-10s %-70s insts=%d %.2fs %v\n", g.Status, n, len(g.Insts), g.TimeS, g.Backend)
			if g.Status != "discharged" && *flagVerbose {
				for _, ob := range g.Insts {
					if ob.Status != "discharged" && ob.Status != "trivial" {
						fmt.Printf("    %s [%s] trace=%v file=%s size=%d\n", ob.Status, ob.Backend, ob.Trace, ob.File, ob.SMTSize)
						if ob.Status == "unknown" {
							fmt.Printf("    solver: %s\n", strings.TrimSpace(ob.Model))
						}
						if ob.Status == "failed" && ob.Expect == "unsat" {
							fmt.Printf("    model: %s\n", summariseModel(ob.Model, 30))
						}
						break
					}
				}
			}
		}
	}
	for _, r := range reports {
		for _, u := range r.Unsupported {
			engineErrs = append(engineErrs, r.Key+": "+u)
		}
		if *flagVerbose && (len(r.UnknownExt) > 0) {
			fmt.Printf("  %s unknown externals: %v\n", r.Key, r.UnknownExt)
		}
	}
	for _, e := range engineErrs {
		fmt.Println("ENGINE:", e)
	}
	fmt.Printf("functions=%d obligations=%d (instances=%d) discharged=%d failed=%d unknown=%d load=%.1fs gen=%.1fs solve=%.1fs total=%.1fs\n",
		len(reports), len(names), len(all), nDis, nFail, nUnk, ld.loadS, genS, solveS, time.Since(t0).Seconds())
	return finish(ld, db, reports, groups, names, engineErrs, work, t0, genS, solveS)
}

func clauseHasProp(c *Contract, p string) bool {
	for _, cl := range c.Requires {
		if hasProp(cl.Props, p) {
			return true
		}
	}
	for _, cl := range c.Ensures {
		if hasProp(cl.Props, p) {
			return true
		}
	}
	for _, l := range c.Loops {
		for _, cl := range l.Invariants {
			if hasProp(cl.Props, p) {
				return true
			}
		}
		for _, cl := range l.Steps {
			if hasProp(cl.Props, p) {
				return true
			}
		}
	}
	for _, cl := range c.AtReturn {
		if hasProp(cl.Props, p) {
			return true
		}
	}
	for _, cls := range c.Callsites {
		for _, cl := range cls {
			if hasProp(cl.Props, p) {
				return true
			}
		}
	}
	return false
}

func summariseModel(m string, maxItems int) string {
	var out []string
	for _, kv := range parseModel(m) {
		if strings.HasPrefix(kv[0], "H0.") || strings.HasPrefix(kv[0], "M0.") {
			continue
		}
		out = append(out, kv[0]+"="+kv[1])
		if len(out) >= maxItems {
			break
		}
	}
	return strings.Join(out, " ")
}

// parseModel extracts (name, value) pairs for 0-ary Int/Bool definitions from a z3/cvc5 model.
func parseModel(m string) [][2]string {
	var out [][2]string
	toks := strings.Fields(strings.NewReplacer("(", " ( ", ")", " ) ").Replace(m))
	for i := 0; i+6 < len(toks); i++ {
		if toks[i] == "define-fun" && toks[i+2] == "(" && toks[i+3] == ")" && (toks[i+4] == "Int" || toks[i+4] == "Bool") {
			name := strings.Trim(toks[i+1], "|")
			v := toks[i+5]
			if v == "(" && toks[i+6] == "-" && i+7 < len(toks) {
				v = "-" + toks[i+7]
			}
			out = append(out, [2]string{name, v})
		}
	}
	return out
}

// finish writes evidence, applies baseline / known-findings policy and returns the exit code.
func finish(ld *Loaded, db *SpecDB, reports []*FuncReport, groups map[string]*oblGroup, names []string, engineErrs []string, work string, t0 time.Time, genS, solveS float64) int {
	prop := *flagProp
	if prop == "" {
		return 0
	}
	// baseline and known findings
	baseline := map[string]bool{}
	if data, err := os.ReadFile(*flagBaseline); err == nil && !*flagWriteBaseline {
		var bl map[string][]string
		if json.Unmarshal(data, &bl) == nil {
			for _, n := range bl[prop] {
				baseline[n] = true
			}
		}
	}
	var known KnownFile
	if data, err := os.ReadFile(*flagKnown); err == nil {
		json.Unmarshal(data, &known)
	}
	violations := 0
	undecided := 0
	knownHit := 0
	discharged := 0
	total := 0
	var samples []interface{}
	byBackend := map[string]int{}
	solverTime := 0.0
	var lines []string
	present := map[string]bool{}
	quantified := 0
	var deadReturns []string
	for _, n := range names {
		g := groups[n]
		if g.Kind == "cover" {
			// vacuity guard: a cover that is unsat means an unreachable return / contradictory requires
			if g.Status == "failed" {
				if strings.HasSuffix(n, "#requires-sat") {
					lines = append(lines, fmt.Sprintf("ENGINE: vacuity: the precondition of %s is unsatisfiable", n))
					engineErrs = append(engineErrs, "vacuous: "+n)
				} else {
					deadReturns = append(deadReturns, n)
				}
			}
			continue
		}
		present[n] = true
		total++
		for b, c := range g.Backend {
			byBackend[b] += c
		}
		solverTime += g.TimeS
		for _, ob := range g.Insts {
			if ob.Quant {
				quantified++
				break
			}
		}
		if len(samples) < 12 {
			samples = append(samples, map[string]interface{}{"obligation": n, "instances": len(g.Insts), "status": g.Status, "smt_bytes": g.Insts[0].SMTSize})
		}
		if g.Status == "discharged" {
			discharged++
			continue
		}
		// failing or unknown
		var bad *Obligation
		for _, ob := range g.Insts {
			if ob.Status == "failed" {
				bad = ob
				break
			}
		}
		if bad == nil {
			for _, ob := range g.Insts {
				if ob.Status == "unknown" {
					bad = ob
					break
				}
			}
		}
		if kfs := matchKnown(known, prop, n, g); len(kfs) > 0 {
			knownHit++
			for _, kf := range kfs {
				lines = append(lines, fmt.Sprintf("KNOWN-FINDING: property=%s %s %s", prop, n, kf.What))
			}
			continue
		}
		replayPath, confirmed := tryReplay(ld, prop, n, bad, work)
		lines = append(lines, fmt.Sprintf("FAILED-OBLIGATION: property=%s %s status=%s source=%s", prop, n, bad.Status, bad.Pos))
		switch {
		case bad.Status == "failed" && confirmed:
			violations++
			lines = append(lines, fmt.Sprintf("VIOLATION property=%s replay=%s", prop, replayPath))
		case bad.Definite && (bad.Status == "failed" || bad.Status == "unknown"):
			// the obligation is `false` on a satisfiable path: the code reaches a point the
			// discipline forbids (e.g. touching a variable captured by a running goroutine)
			violations++
			p := writeReplayNote(prop, n, bad, "the program point is reachable and the discipline forbids reaching it")
			lines = append(lines, fmt.Sprintf("VIOLATION property=%s replay=%s no-failing-input-found", prop, p))
		case baseline[n] || movedFromBaseline(baseline, bad):
			violations++
			p := writeReplayNote(prop, n, bad, "obligation was discharged on the baseline tree and is not discharged now")
			lines = append(lines, fmt.Sprintf("VIOLATION property=%s replay=%s no-failing-input-found", prop, p))
		case bad.Status == "failed" && bad.Kind == "frame" && !bad.Havocked && bad.Func == bad.Host && baselineHasFunc(baseline, bad.Func):
			// `modifies` is one clause of the contract; it is checked per written location, and a
			// location the function did not write on the baseline tree has no obligation of its
			// own there. The clause was discharged on the baseline tree; now the function writes
			// a location outside it, and the solver has a model.
			violations++
			p := writeReplayNote(prop, n, bad, "the modifies clause of the function was discharged on the baseline tree; this location outside it is written now (model attached)")
			lines = append(lines, fmt.Sprintf("VIOLATION property=%s replay=%s no-failing-input-found", prop, p))
		case bad.Status == "failed" && bad.Kind == "safety" && !bad.Havocked && (baselineHasFunc(baseline, bad.Func) || baselineHasFunc(baseline, bad.Host)):
			// Panic freedom is an obligation of the function as a whole: every run-time check of
			// every instruction was discharged on the baseline tree. The instruction is new, so
			// there is no obligation of the same name to compare with, but the solver has a model
			// in which it panics under the contracts of everything the function calls.
			violations++
			p := writeReplayNote(prop, n, bad, "panic freedom of the function was discharged on the baseline tree; this run-time check of a new instruction has a satisfying panic model")
			lines = append(lines, fmt.Sprintf("VIOLATION property=%s replay=%s no-failing-input-found", prop, p))
		default:
			undecided++
			lines = append(lines, fmt.Sprintf("UNDECIDED property=%s %s (%s)", prop, n, bad.Status))
		}
	}
	// baseline obligations that can no longer be generated
	var moved []string
	var missing []string
	for n := range baseline {
		if !present[n] {
			missing = append(missing, n)
		}
	}
	sort.Strings(missing)
	// functions that were verified without engine errors in this run
	cleanFunc := map[string]bool{}
	verified := map[string]bool{}
	for _, r := range reports {
		verified[r.Key] = true
		if len(r.Unsupported) == 0 && r.Skipped == "" {
			cleanFunc[r.Key] = true
		}
	}
	for _, n := range missing {
		// Obligations that are generated per instruction (safety, preconditions of calls,
		// frame of written arrays, map-insertion invariants) legitimately disappear when the
		// instruction does (code moved into a helper, a call removed), provided the function
		// itself was processed completely. Contract clauses (ensures, invariants, callsite,
		// atreturn, refines, decreases) must still be generated.
		fn := n
		if i := strings.Index(n, "/"); i >= 0 {
			fn = n[:i]
		}
		kind := strings.TrimPrefix(n, fn+"/")
		perInstr := strings.HasPrefix(kind, "safety#") || strings.HasPrefix(kind, "pre@") || strings.HasPrefix(kind, "frame#") || strings.HasPrefix(kind, "mapinv@") || strings.HasPrefix(kind, "closure-pre@") || strings.HasPrefix(kind, "spawn-pre@") || strings.HasPrefix(kind, "inv-step#") && strings.Contains(kind, ":frame:")
		if perInstr && cleanFunc[fn] {
			moved = append(moved, n)
			continue
		}
		// A function that was only verified because another function of the property relied on
		// its contract drops out of the check when that reliance disappears (a call removed or
		// redirected). Its obligations are then decided by the properties that name it.
		// An unexported function or a closure that no longer exists (inlined into its caller,
		// merged with another closure): verification is modular, so what it guaranteed must now
		// be established by the functions that used to call it, whose own obligations are all
		// still generated and checked.
		// a `loop N` block whose loop no longer exists in the function (moved into a helper, merged)
		if ds := droppedLoopSpecs[fn]; len(ds) > 0 && cleanFunc[fn] {
			isDropped := false
			for _, d := range ds {
				if strings.Contains(kind, fmt.Sprintf("#loop%d:", d)) || strings.HasSuffix(kind, fmt.Sprintf("#loop%d", d)) {
					isDropped = true
				}
			}
			if isDropped {
				moved = append(moved, n)
				continue
			}
		}
		if _, exists := ld.byKey[fn]; !exists && eligibleForRekey(fn) {
			moved = append(moved, n)
			goneFuncs[fn] = true
			continue
		}
		if !verified[fn] && !directlyTagged(db, fn, prop) {
			if _, exists := ld.byKey[fn]; exists {
				moved = append(moved, n)
				continue
			}
		}
		violations++
		p := writeReplayNote(prop, n, nil, "baseline obligation can no longer be generated (function, loop or clause no longer binds): "+strings.Join(engineErrs, "; "))
		lines = append(lines, fmt.Sprintf("VIOLATION property=%s replay=%s no-failing-input-found", prop, p))
	}
	for _, l := range lines {
		fmt.Println(l)
	}
	if *flagWriteBaseline {
		writeBaseline(prop, groups, names)
		var keys []string
		for _, r := range reports {
			keys = append(keys, r.Key)
		}
		writeBaseNames(*flagNames, ld, keys)
	}
	boundedLoops := map[string]int{}
	for _, r := range reports {
		for k, v := range r.Bounded {
			boundedLoops[k] = v
		}
	}
	for _, k := range sortedKeys(boundedLoops) {
		fmt.Printf("NOTE: %s has no loop specification: checked by unrolling (bound %d iterations) - bounded, not a proof\n", k, unrollBound)
	}
	evidenceExtra["bounded_loops"] = boundedLoops
	for _, fnk := range sortedKeys(droppedLoopSpecs) {
		fmt.Printf("NOTE: %s: loop specification block(s) %v have no loop any more and are not checked\n", fnk, droppedLoopSpecs[fnk])
	}
	if len(notInductive) > 0 {
		ni := map[string][]int{}
		for fnk, set := range notInductive {
			for o := range set {
				ni[fnk] = append(ni[fnk], o)
			}
			sort.Ints(ni[fnk])
		}
		for _, fnk := range sortedKeys(ni) {
			fmt.Printf("NOTE: %s: the invariants of loop block(s) %v do not hold for the loop as it is now; the block is set aside and the loop is checked by unrolling (bound %d iterations) - bounded, not a proof\n", fnk, ni[fnk], unrollBound)
		}
		evidenceExtra["loop_specs_not_inductive"] = ni
	}
	evidenceExtra["loop_specs_dropped"] = droppedLoopSpecs
	for _, fnk := range sortedKeys(goneFuncs) {
		fmt.Printf("NOTE: %s no longer exists (unexported function or closure); its contract is not checked, its callers' contracts are\n", fnk)
	}
	for _, k := range sortedKeys(rekeyed) {
		fmt.Printf("NOTE: contract %s now applies to %s (same signature, renamed or re-nested)\n", k, rekeyed[k])
	}
	evidenceExtra["functions_gone"] = sortedKeys(goneFuncs)
	evidenceExtra["contracts_rekeyed"] = rekeyed
	evidenceExtra["rebound_names"] = ex0rebound
	for _, fnk := range sortedKeys(ex0rebound) {
		var parts []string
		for _, o := range sortedKeys(ex0rebound[fnk]) {
			parts = append(parts, o+"->"+strings.Join(ex0rebound[fnk][o], "|"))
		}
		fmt.Printf("NOTE: %s: contract names rebound after a rename: %s\n", fnk, strings.Join(parts, ", "))
	}
	evidenceExtra["unreachable_returns"] = deadReturns
	evidenceExtra["baseline_obligations_no_longer_generated"] = moved
	writeEvidence(ld, db, reports, prop, total, discharged, violations, undecided, knownHit, quantified, samples, byBackend, solverTime, engineErrs, t0)
	if total == 0 {
		fmt.Println("ENGINE: zero obligations generated for", prop)
		return 2
	}
	if violations > 0 {
		return 1
	}
	return 0
}

// matchKnown: a failing obligation is a known finding when every failing path instance
// matches the path signature of some recorded finding for that (property, obligation);
// a failure on any other path is still reported.
// movedFromBaseline: the obligation arose in an un-annotated helper inlined into a function
// for which the baseline holds the same obligation (code extracted into a helper).
func baselineHasFunc(baseline map[string]bool, fn string) bool {
	if fn == "" {
		return false
	}
	for n := range baseline {
		if strings.HasPrefix(n, fn+"/") {
			return true
		}
	}
	return false
}

func movedFromBaseline(baseline map[string]bool, ob *Obligation) bool {
	if ob == nil || ob.Host == "" || ob.Host == ob.Func {
		return false
	}
	return baseline[fmt.Sprintf("%s/%s#%s", ob.Host, ob.Kind, ob.Label)]
}

func matchKnown(k KnownFile, prop, name string, g *oblGroup) []*KnownFinding {
	var cands []*KnownFinding
	for i := range k.Findings {
		f := &k.Findings[i]
		if f.Obligation == name {
			cands = append(cands, f)
		}
	}
	if len(cands) == 0 {
		return nil
	}
	used := map[*KnownFinding]bool{}
	for _, ob := range g.Insts {
		if ob.Status == "discharged" || ob.Status == "trivial" {
			continue
		}
		tr := strings.Join(ob.Trace, " ")
		hit := false
		for _, f := range cands {
			if f.Path == "" || strings.Contains(tr, f.Path) {
				used[f] = true
				hit = true
				break
			}
		}
		if !hit {
			return nil
		}
	}
	var out []*KnownFinding
	for _, f := range cands {
		if used[f] {
			out = append(out, f)
		}
	}
	return out
}

func writeBaseline(prop string, groups map[string]*oblGroup, names []string) {
	bl := map[string][]string{}
	if data, err := os.ReadFile(*flagBaseline); err == nil {
		json.Unmarshal(data, &bl)
	}
	var ok []string
	for _, n := range names {
		if groups[n].Kind != "cover" && groups[n].Status == "discharged" {
			ok = append(ok, n)
		}
	}
	bl[prop] = ok
	data, _ := json.MarshalIndent(bl, "", " ")
	os.WriteFile(*flagBaseline, data, 0o644)
}

func writeReplayNote(prop, name string, ob *Obligation, why string) string {
	os.MkdirAll(*flagReplayDir, 0o755)
	p := filepath.Join(*flagReplayDir, fmt.Sprintf("%s_%s.txt", prop, sanitize(name)))
	var b strings.Builder
	fmt.Fprintf(&b, "property: %s\nfailed obligation: %s\nreason: %s\n", prop, name, why)
	if ob != nil {
		fmt.Fprintf(&b, "source: %s\npath: %s\nsolver: %s status=%s\nsolver output:\n%s\n", ob.Pos, strings.Join(ob.Trace, " -> "), ob.Backend, ob.Status, ob.Model)
		if ob.File != "" {
			if data, err := os.ReadFile(ob.File); err == nil && len(data) < 400000 {
				fmt.Fprintf(&b, "\n--- SMT query ---\n%s\n", data)
			}
		}
	}
	os.WriteFile(p, []byte(b.String()), 0o644)
	return p
}

func sanitize(s string) string {
	r := strings.NewReplacer("/", "_", "(", "", ")", "", "*", "", " ", "_", "#", "-", ":", "-", "$", "-", "[", "", "]", "", "@", "-at-")
	return r.Replace(s)
}

func writeEvidence(ld *Loaded, db *SpecDB, reports []*FuncReport, prop string, total, discharged, violations, undecided, knownHit, quantified int, samples []interface{}, byBackend map[string]int, solverTime float64, engineErrs []string, t0 time.Time) {
	if *flagOut == "" {
		return
	}
	var underContract, swept, trustedFns []string
	assume := map[string]bool{}
	unknownExt := map[string]bool{}
	inlined := map[string]bool{}
	var noDec []string
	var skipped []string
	for _, r := range reports {
		if r.Skipped != "" {
			skipped = append(skipped, r.Key+": "+r.Skipped)
			assume["not verified: "+r.Key+" ("+r.Skipped+")"] = true
			continue
		}
		if r.Trusted {
			trustedFns = append(trustedFns, r.Key)
			assume["trusted contract (body not checked): "+r.Key] = true
		} else if r.HasContract {
			underContract = append(underContract, r.Key)
		} else {
			swept = append(swept, r.Key)
		}
		for _, u := range r.UsedSpecs {
			if strings.HasPrefix(u, "intrinsic ") {
				k := strings.TrimPrefix(u, "intrinsic ")
				assume["external spec: "+intrinsicDocs[k]] = true
			} else if strings.HasPrefix(u, "no-effect ") {
				assume["external assumed to have no effect on modelled state: "+strings.TrimPrefix(u, "no-effect ")] = true
			} else if strings.HasPrefix(u, "callback ") || strings.HasPrefix(u, "iface ") || strings.HasPrefix(u, "extern ") {
				assume["assumed contract: "+u] = true
			}
		}
		for _, u := range r.UnknownExt {
			unknownExt[u] = true
		}
		for _, u := range r.Inlined {
			inlined[u] = true
		}
		noDec = append(noDec, r.NoDecreases...)
	}
	for _, a := range []string{
		"go/packages+go/types+go/ssa lower the Go source correctly; govc's translation of the SSA instruction kinds is correct",
		"SMT solver answers are correct (z3 4.8.12, z3 5.1.0, cvc5 1.0.3)",
		"int/uint are 64-bit (GOARCH=amd64); integer arithmetic is modelled exactly with wrap-around, not as mathematical integers",
		"panicking executions of user callbacks are not modelled (recover() returns nil)",
		"package-level variables are not written after initialisation",
	} {
		assume[a] = true
	}
	for u := range unknownExt {
		assume["unspecified external callee (all modelled state havocked at the call): "+u] = true
	}
	evidenceExtra["skipped"] = skipped
	level := "proof"
	if discharged < total || total == 0 {
		level = "other"
	}
	// never report a stronger level than the one claimed for the property in MANIFEST.json
	if data, err := os.ReadFile("/verif/MANIFEST.json"); err == nil {
		var mf struct {
			Checks []struct {
				PropertyID string `json:"property_id"`
				Level      struct {
					Category string `json:"category"`
				} `json:"level_claimed"`
			} `json:"checks"`
		}
		if json.Unmarshal(data, &mf) == nil {
			for _, c := range mf.Checks {
				if c.PropertyID == prop && c.Level.Category != "proof" && c.Level.Category != "" {
					level = c.Level.Category
				}
			}
		}
	}
	cov := map[string]interface{}{
		"obligations":              total,
		"discharged":               discharged,
		"checker_cmd":              "govc " + strings.Join(os.Args[1:], " "),
		"trusted_base":             []string{"go/ssa front end (x/tools v0.29.0)", "govc VC generator (/verif/engine)", "z3 4.8.12 / z3 5.1.0 / cvc5 1.0.3", "/verif/spec/*.spec trusted external specifications", "native intrinsics in /verif/engine/intrinsics.go"},
		"functions_under_contract": underContract,
		"functions_swept_without_contract": len(swept),
		"trusted_functions":        trustedFns,
		"by_backend":               byBackend,
		"solver_time_s":            solverTime,
		"undecided":                undecided,
		"known_findings_hit":       knownHit,
		"quantified_obligations":   quantified,
		"inlined_callees":          sortedKeys(inlined),
		"loops_without_measure":    noDec,
		"engine_errors":            engineErrs,
		"samples":                  samples,
		"contract_files":           db.Files,
		"unreachable_returns":     evidenceExtra["unreachable_returns"],
		"baseline_obligations_no_longer_generated": evidenceExtra["baseline_obligations_no_longer_generated"],
		"skipped_functions":       evidenceExtra["skipped"],
		"explanation":              fmt.Sprintf("contract-based deductive verification: %d named obligations generated by weakest-precondition style symbolic execution over go/ssa for the functions carrying %s clauses, discharged by an SMT portfolio; %d discharged, %d undecided, %d match recorded known findings, %d violations", total, prop, discharged, undecided, knownHit, violations),
	}
	ev := map[string]interface{}{
		"property_id": prop,
		"tier":        *flagTier,
		"seed":        *flagSeed,
		"level":       level,
		"coverage":    cov,
		"assumptions": sortedKeys(assume),
		"wall_s":      time.Since(t0).Seconds(),
		"violations":  violations,
	}
	data, _ := json.MarshalIndent(ev, "", " ")
	os.MkdirAll(filepath.Dir(*flagOut), 0o755)
	os.WriteFile(*flagOut, data, 0o644)
}
