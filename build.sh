#!/bin/sh
# Builds the govc engine offline from /verif/engine into /verif/bin/govc.
set -e
export GOFLAGS=-mod=mod GOPROXY=off GOSUMDB=off GOTOOLCHAIN=local
cd /verif/engine
mkdir -p /verif/bin
go build -o /verif/bin/govc .
